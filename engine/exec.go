package main

// Symbolic interpreter for go/ssa: one Exec = one run of a harness along one path, driven by a decision
// prefix (stateless DFS, re-execution from the start).

import (
	"fmt"
	"go/constant"
	"go/token"
	"go/types"
	"sort"
	"strings"
	"sync"

	"golang.org/x/tools/go/ssa"
)

// ---------------------------------------------------------------- shared, immutable engine state

type Engine struct {
	prog      *ssa.Program
	fnInfo    sync.Map // *ssa.Function -> *fnInfo
	stubs     map[string]stubFn
	pkgByPath map[string]*ssa.Package
	opts      Options
}

type Options struct {
	SolverBin    string
	TimeoutMs    int
	UnwindLimit  int
	MaxSteps     int64
	MaxConcVals  int
	Trace        bool
	Bounds       map[string]int64
	SolverLogDir string
}

type fnInfo struct {
	idx map[ssa.Value]int
	n   int
	// loopHead[b] true if block b is the target of a back edge (b dominates a predecessor or index<=)
	loopHead []bool
}

func (e *Engine) info(fn *ssa.Function) *fnInfo {
	if v, ok := e.fnInfo.Load(fn); ok {
		return v.(*fnInfo)
	}
	fi := &fnInfo{idx: make(map[ssa.Value]int)}
	add := func(v ssa.Value) {
		fi.idx[v] = fi.n
		fi.n++
	}
	for _, p := range fn.Params {
		add(p)
	}
	for _, p := range fn.FreeVars {
		add(p)
	}
	for _, b := range fn.Blocks {
		for _, in := range b.Instrs {
			if v, ok := in.(ssa.Value); ok {
				add(v)
			}
		}
	}
	fi.loopHead = make([]bool, len(fn.Blocks))
	for _, b := range fn.Blocks {
		for _, s := range b.Succs {
			if s.Dominates(b) { // back edge of a natural loop
				fi.loopHead[s.Index] = true
			}
		}
	}
	v, _ := e.fnInfo.LoadOrStore(fn, fi)
	return v.(*fnInfo)
}

// ---------------------------------------------------------------- per-run state

type InputRec struct {
	Kind  string `json:"kind"`
	Name  string `json:"name"`
	Width int    `json:"width,omitempty"`
	term  *Term
	Val   uint64 `json:"val"`
}

type Violation struct {
	Harness string     `json:"harness"`
	Label   string     `json:"label"`
	Kind    string     `json:"kind"` // assert | panic | nonterm | deadlock
	Msg     string     `json:"msg,omitempty"`
	Inputs  []InputRec `json:"inputs"`
	Shape   string     `json:"shape"`
	Notes   []string   `json:"notes,omitempty"`
	Path    []uint64   `json:"path,omitempty"`
}

type RunStats struct {
	Steps        int64
	Decisions    int
	Forced       int
	Obligations  int
	Discharged   int
	Trivial      int
	Unknown      int
	Reached      map[string]int
	UnwindFails  int
	Concretized  int
	AssumePruned int
}

type Exec struct {
	eng       *Engine
	tc        *TermCtx
	sol       *Solver
	harness   string
	prefix    []uint64
	pos       int
	decs      []uint64   // full decision vector of this run
	alts      [][]uint64 // new prefixes discovered
	pc        []*Term
	known     map[*Term]bool
	inputs    []InputRec
	notes     []string
	viol      []Violation
	stats     RunStats
	globals   map[*ssa.Global]*Value
	pkgInit   map[*ssa.Package]int // 0 none, 1 running, 2 done
	emptyStr  *StrV
	strCache  map[string]*StrV
	pools     map[*Value][]Value // sync.Pool contents (LIFO)
	constMem  map[*ssa.Const]Value
	effects   int64 // counter of side effects / decisions, for the lasso detector
	depth     int
	funcs     map[string]bool // functions executed (qualified names)
	stubHits  map[string]int
	clock     *Term // virtual clock (ns)
	clockSeq  int
	nameSeq   map[string]int
	rng       uint64
	errType   types.Type
	threads   *scheduler
	cur       *thread
	extra     map[string]interface{}
	mapOrder  string
	tolerant  int // >0 while executing package initialisers
	goMode    string
	pending   []func()
	heapSeq   int
	curFn     *ssa.Function
	inPending int
	entryPkg  *ssa.Package
	timers    []*vTimer
	callStack []*ssa.Function
}

func NewExec(eng *Engine, sol *Solver, harness string, prefix []uint64) *Exec {
	ex := &Exec{eng: eng, sol: sol, harness: harness, prefix: prefix}
	ex.tc = NewTermCtx()
	ex.known = make(map[*Term]bool)
	ex.globals = make(map[*ssa.Global]*Value)
	ex.pkgInit = make(map[*ssa.Package]int)
	ex.strCache = make(map[string]*StrV)
	ex.constMem = make(map[*ssa.Const]Value)
	ex.emptyStr = &StrV{}
	ex.funcs = make(map[string]bool)
	ex.stubHits = make(map[string]int)
	ex.stats.Reached = make(map[string]int)
	ex.nameSeq = make(map[string]int)
	ex.extra = make(map[string]interface{})
	ex.goMode = "inline"
	return ex
}

func (ex *Exec) replaying() bool { return ex.pos < len(ex.prefix) }

func (ex *Exec) effect() { ex.effects++ }

// addPC asserts a constraint on the path.
func (ex *Exec) addPC(t *Term) {
	if t.IsConst() {
		return
	}
	ex.pc = append(ex.pc, t)
	ex.known[t] = true
	if t.op == OBNot {
		ex.known[t.a] = false
	}
	ex.sol.Assert(t)
}

// lookupKnown: is the condition already decided on this path?
func (ex *Exec) lookupKnown(c *Term) (bool, bool) {
	if v, ok := ex.known[c]; ok {
		return v, true
	}
	if c.op == OBNot {
		if v, ok := ex.known[c.a]; ok {
			return !v, true
		}
	}
	return false, false
}

// branch decides a symbolic condition; forks the exploration if both sides are feasible.
func (ex *Exec) branch(cond *Term) bool {
	if cond.IsConst() {
		return cond.val != 0
	}
	if v, ok := ex.lookupKnown(cond); ok {
		return v
	}
	ex.effect()
	if ex.replaying() {
		d := ex.prefix[ex.pos]
		ex.pos++
		ex.decs = append(ex.decs, d)
		forced := d&2 != 0
		v := d&1 != 0
		if forced {
			ex.known[cond] = v
		} else if v {
			ex.addPC(cond)
		} else {
			ex.addPC(ex.tc.Not(cond))
		}
		return v
	}
	ex.stats.Decisions++
	rt := ex.sol.CheckWith(cond)
	if rt == Unknown {
		ex.stats.Unknown++
	}
	if rt == Unsat {
		ex.stats.Forced++
		ex.decs = append(ex.decs, 2)
		ex.known[cond] = false
		return false
	}
	rf := ex.sol.CheckWith(ex.tc.Not(cond))
	if rf == Unknown {
		ex.stats.Unknown++
	}
	if rf == Unsat {
		ex.stats.Forced++
		ex.decs = append(ex.decs, 3)
		ex.known[cond] = true
		return true
	}
	// both feasible: take true first, enqueue false
	alt := append(append([]uint64{}, ex.decs...), 0)
	ex.alts = append(ex.alts, alt)
	ex.decs = append(ex.decs, 1)
	ex.addPC(cond)
	return true
}

// choose is an n-way concrete fork (case split requested by the harness or the engine).
func (ex *Exec) choose(n int) int {
	if n <= 1 {
		return 0
	}
	ex.effect()
	if ex.replaying() {
		d := ex.prefix[ex.pos]
		ex.pos++
		ex.decs = append(ex.decs, d)
		return int(d >> 8)
	}
	ex.stats.Decisions++
	for i := 1; i < n; i++ {
		alt := append(append([]uint64{}, ex.decs...), uint64(i)<<8|4)
		ex.alts = append(ex.alts, alt)
	}
	ex.decs = append(ex.decs, 4)
	return 0
}

// concretize forces a term to a concrete value, forking over its feasible values.
func (ex *Exec) concretize(t *Term, what string) uint64 {
	if t.IsConst() {
		return t.val
	}
	for tries := 0; ; tries++ {
		if tries > ex.eng.opts.MaxConcVals {
			panic(engineErr("concretize(%s): more than %d feasible values for %s", what, ex.eng.opts.MaxConcVals, t))
		}
		var v uint64
		if ex.replaying() {
			v = ex.prefix[ex.pos] >> 8
			ex.pos++
			ex.decs = append(ex.decs, v<<8|8)
		} else {
			ex.stats.Concretized++
			r := ex.sol.CheckSat()
			if r != Sat {
				panic(pathEnd{"infeasible", "concretize: path condition not satisfiable (" + r.String() + ")"})
			}
			ex.sol.Define(t)
			vals, err := ex.sol.getTermValue(t)
			if err != nil {
				panic(engineErr("concretize: %v", err))
			}
			v = vals
			if uint64(v<<8>>8) != v {
				panic(engineErr("concretize(%s): value too large for decision encoding: %d", what, v))
			}
			ex.decs = append(ex.decs, v<<8|8)
		}
		if ex.branch(ex.tc.Eq(t, ex.tc.Const(int(t.w), v))) {
			return v
		}
	}
}

func (s *Solver) getTermValue(t *Term) (uint64, error) {
	ans, stray, err := s.exchange("(get-value (" + ref(t) + "))")
	if err != nil {
		return 0, err
	}
	if len(stray) > 0 {
		return 0, fmt.Errorf("%s", strings.Join(stray, " "))
	}
	if strings.HasPrefix(ans, "(error") {
		return 0, fmt.Errorf("%s", ans)
	}
	// ((name value))
	toks := tokenize(ans)
	for i := len(toks) - 1; i >= 0; i-- {
		tk := toks[i]
		switch {
		case strings.HasPrefix(tk, "#x"):
			var v uint64
			fmt.Sscanf(tk[2:], "%x", &v)
			return v, nil
		case strings.HasPrefix(tk, "#b"):
			var v uint64
			for _, c := range tk[2:] {
				v = v<<1 | uint64(c-'0')
			}
			return v, nil
		case tk == "true":
			return 1, nil
		case tk == "false":
			return 0, nil
		}
	}
	return 0, fmt.Errorf("cannot parse value: %s", ans)
}

func (ex *Exec) freshName(base string) string {
	base = sanitize(base)
	n := ex.nameSeq[base]
	ex.nameSeq[base] = n + 1
	return fmt.Sprintf("%s_%d", base, n)
}

func sanitize(s string) string {
	var sb strings.Builder
	for _, c := range s {
		if c >= 'a' && c <= 'z' || c >= 'A' && c <= 'Z' || c >= '0' && c <= '9' || c == '_' {
			sb.WriteRune(c)
		} else {
			sb.WriteRune('_')
		}
	}
	if sb.Len() == 0 {
		return "v"
	}
	return "v_" + sb.String()
}

// newInput creates a named symbolic input recorded in the replay vector.
func (ex *Exec) newInput(kind, name string, w int) *Term {
	ex.effect()
	t := ex.tc.Var(w, ex.freshName(name))
	ex.inputs = append(ex.inputs, InputRec{Kind: kind, Name: name, Width: w, term: t})
	return t
}

// newEnvVar creates an environment nondeterminism variable (not part of the replay vector order contract,
// but reported).
func (ex *Exec) newEnvVar(name string, w int) *Term {
	ex.effect()
	return ex.tc.Var(w, ex.freshName("env_"+name))
}

func (ex *Exec) recordConcreteInput(kind, name string, v uint64) {
	ex.inputs = append(ex.inputs, InputRec{Kind: kind, Name: name, Val: v})
}

// ---------------------------------------------------------------- violations

func (ex *Exec) shape() string {
	var parts []string
	for _, in := range ex.inputs {
		if in.Kind == "choose" {
			parts = append(parts, fmt.Sprintf("%s=%d", in.Name, in.Val))
		}
	}
	return strings.Join(parts, ",")
}

func (ex *Exec) reportViolation(kind, label, msg string, haveModel bool) {
	v := Violation{Harness: ex.harness, Label: label, Kind: kind, Msg: msg, Shape: ex.shape()}
	var model map[string]uint64
	if haveModel && (kind == "deadlock" || kind == "nonterm") {
		// these are raised where the execution stands, not after a query: the solver's last answer may belong to a
		// popped scope, so the model is taken from a fresh check of the path condition
		haveModel = ex.sol.CheckSat() == Sat
	}
	if haveModel {
		var vars []*Term
		for _, in := range ex.inputs {
			if in.term != nil {
				vars = append(vars, in.term)
			}
		}
		for _, t := range vars {
			ex.sol.Define(t)
		}
		if len(vars) > 0 {
			m, err := ex.sol.GetValues(vars)
			if err == nil {
				model = m
			} else {
				v.Notes = append(v.Notes, "model extraction failed: "+err.Error())
			}
		}
	}
	for _, in := range ex.inputs {
		r := in
		if in.term != nil && model != nil {
			r.Val = model[in.term.name]
		}
		v.Inputs = append(v.Inputs, r)
	}
	v.Notes = append(v.Notes, ex.notes...)
	v.Path = append([]uint64{}, ex.decs...)
	ex.viol = append(ex.viol, v)
}

// ---------------------------------------------------------------- frames

type deferred struct {
	fn   Value
	args []Value
	tail *deferred
}

type frame struct {
	ex        *Exec
	caller    *frame
	fn        *ssa.Function
	info      *fnInfo
	block     *ssa.BasicBlock
	prevBlock *ssa.BasicBlock
	env       []Value
	defers    *deferred
	result    Value
	panicking bool
	panicVal  interface{}
	visits    map[int]int
	lasso     map[int]lassoRec
}

type lassoRec struct {
	effects int64
	phis    []Value
}

func (fr *frame) get(v ssa.Value) Value {
	switch v := v.(type) {
	case nil:
		return nil
	case *ssa.Function:
		return v
	case *ssa.Builtin:
		return v
	case *ssa.Const:
		return fr.ex.constValue(v)
	case *ssa.Global:
		return fr.ex.globalAddr(v)
	}
	i, ok := fr.info.idx[v]
	if !ok {
		panic(engineErr("get: no slot for %T %s in %s", v, v.Name(), fr.fn))
	}
	x := fr.env[i]
	if s, ok := x.(*StrV); ok && s.src != nil {
		s.sync()
	}
	return x
}

func (fr *frame) set(v ssa.Value, x Value) {
	fr.env[fr.info.idx[v]] = x
}

func (ex *Exec) constValue(c *ssa.Const) Value {
	if v, ok := ex.constMem[c]; ok {
		return v
	}
	v := ex.constValue0(c)
	ex.constMem[c] = v
	return v
}

func (ex *Exec) constValue0(c *ssa.Const) Value {
	if c.Value == nil {
		return ex.zero(c.Type())
	}
	t := c.Type().Underlying()
	if b, ok := t.(*types.Basic); ok {
		switch {
		case b.Info()&types.IsString != 0:
			return ex.mkStr(constant.StringVal(c.Value))
		case b.Info()&types.IsBoolean != 0:
			return ex.tc.Bool(constant.BoolVal(c.Value))
		case b.Info()&types.IsInteger != 0:
			w := basicWidth(b)
			if b.Info()&types.IsUnsigned != 0 {
				u, _ := constant.Uint64Val(constant.ToInt(c.Value))
				return ex.tc.Const(w, u)
			}
			i, ok := constant.Int64Val(constant.ToInt(c.Value))
			if !ok {
				u, _ := constant.Uint64Val(constant.ToInt(c.Value))
				return ex.tc.Const(w, u)
			}
			return ex.tc.Const(w, uint64(i))
		case b.Info()&types.IsFloat != 0:
			f, _ := constant.Float64Val(c.Value)
			return ex.tc.FConst(basicWidth(b), f)
		}
	}
	// type parameter or other: try by value kind
	switch c.Value.Kind() {
	case constant.String:
		return ex.mkStr(constant.StringVal(c.Value))
	case constant.Bool:
		return ex.tc.Bool(constant.BoolVal(c.Value))
	case constant.Int:
		i, _ := constant.Int64Val(c.Value)
		return ex.tc.Const(64, uint64(i))
	}
	panic(engineErr("constValue: unsupported constant %s of type %s", c, c.Type()))
}

func (ex *Exec) globalAddr(g *ssa.Global) *Value {
	if p, ok := ex.globals[g]; ok {
		return p
	}
	ex.ensureInit(g.Pkg)
	if p, ok := ex.globals[g]; ok {
		return p
	}
	p := new(Value)
	*p = ex.zero(deref(g.Type()))
	ex.globals[g] = p
	return p
}

func deref(t types.Type) types.Type {
	if p, ok := t.Underlying().(*types.Pointer); ok {
		return p.Elem()
	}
	panic(engineErr("deref of non-pointer %s", t))
}

// ensureInit runs the package initialiser lazily (without running the initialisers of its imports,
// which are themselves initialised lazily on first global access).
func (ex *Exec) ensureInit(pkg *ssa.Package) {
	if pkg == nil || ex.pkgInit[pkg] != 0 {
		return
	}
	ex.pkgInit[pkg] = 1
	for _, m := range pkg.Members {
		if g, ok := m.(*ssa.Global); ok {
			if _, ok := ex.globals[g]; !ok {
				p := new(Value)
				*p = ex.zero(deref(g.Type()))
				ex.globals[g] = p
			}
		}
	}
	if skipInit(pkg.Pkg.Path()) {
		ex.pkgInit[pkg] = 2
		return
	}
	initFn := pkg.Func("init")
	if initFn != nil && initFn.Blocks != nil {
		ex.tolerant++
		func() {
			defer func() {
				ex.tolerant--
				if r := recover(); r != nil {
					switch r.(type) {
					case engineError, targetPanic:
						ex.note("package init of %s incomplete: %v", pkg.Pkg.Path(), r)
					default:
						panic(r)
					}
				}
			}()
			ex.callSSA(nil, initFn, nil, nil)
		}()
	}
	ex.pkgInit[pkg] = 2
}

func (ex *Exec) note(f string, a ...interface{}) {
	s := fmt.Sprintf(f, a...)
	for _, n := range ex.notes {
		if n == s {
			return
		}
	}
	if len(ex.notes) < 50 {
		ex.notes = append(ex.notes, s)
	}
}

// tolerantCall is used only inside package initialisers: a callee the engine cannot execute yields the
// zero value of its result type (noted), instead of aborting the whole initialiser.
func (ex *Exec) tolerantCall(fr *frame, in *ssa.Call, fn Value, args []Value) (res Value) {
	if f, ok := fn.(*ssa.Function); ok && f.Synthetic == "package initializer" {
		return nil // imports are initialised lazily on first use of one of their globals
	}
	saveDepth := ex.depth
	defer func() {
		if r := recover(); r != nil {
			ex.depth = saveDepth
			switch p := r.(type) {
			case engineError:
				ex.note("init of %s: %s skipped (%s)", fr.fn.Pkg.Pkg.Path(), describeFn(fn), firstLine(p.msg))
			case targetPanic:
				ex.note("init of %s: %s panicked (%s)", fr.fn.Pkg.Pkg.Path(), describeFn(fn), firstLine(p.msg))
			case pathEnd:
				if p.kind != "unwind" && p.kind != "steps" && p.kind != "bound" && p.kind != "block" {
					panic(r)
				}
				ex.note("init of %s: %s skipped (%s)", fr.fn.Pkg.Pkg.Path(), describeFn(fn), p.kind)
			default:
				panic(r)
			}
			res = ex.zero(in.Type())
		}
	}()
	return ex.call(fr, fn, args, in.Pos())
}

func describeFn(fn Value) string {
	switch f := fn.(type) {
	case *ssa.Function:
		return f.String()
	case *Closure:
		return f.fn.String()
	}
	return fmt.Sprintf("%T", fn)
}

// ---------------------------------------------------------------- calls

func (ex *Exec) call(caller *frame, fn Value, args []Value, pos token.Pos) Value {
	switch fn := fn.(type) {
	case *ssa.Function:
		if fn == nil {
			ex.throw("call of nil function")
		}
		return ex.callSSA(caller, fn, args, nil)
	case *Closure:
		return ex.callSSA(caller, fn.fn, args, fn.env)
	case *ssa.Builtin:
		return ex.callBuiltin(caller, fn, args)
	case *boundCall:
		return ex.call(caller, fn.fn, fn.args, pos)
	case nil:
		ex.throw("invalid memory address or nil pointer dereference (nil func)")
	}
	panic(engineErr("cannot call %T", fn))
}

// throw raises a run-time panic of the interpreted program.
func (ex *Exec) throw(msg string) {
	panic(targetPanic{v: IfaceV{t: ex.runtimeErrType(), v: ex.mkStr(msg)}, msg: "runtime error: " + msg + " [" + ex.stackString() + "]", where: ex.whereName()})
}

// whereName names the innermost non-harness function being executed (used to label panics).
// stackString renders the innermost interpreted frames (for panic messages).
func (ex *Exec) stackString() string {
	var parts []string
	for i := len(ex.callStack) - 1; i >= 0 && len(parts) < 8; i-- {
		parts = append(parts, ex.callStack[i].Name())
	}
	return strings.Join(parts, " < ")
}

func (ex *Exec) whereName() string {
	if ex.curFn == nil {
		return ""
	}
	f := ex.curFn
	for f.Parent() != nil {
		f = f.Parent()
	}
	return f.Name()
}

func (ex *Exec) runtimeErrType() types.Type {
	if ex.errType == nil {
		if p := ex.eng.prog.ImportedPackage("runtime"); p != nil {
			if t := p.Type("errorString"); t != nil {
				ex.errType = t.Type()
			}
		}
		if ex.errType == nil {
			ex.errType = types.Typ[types.String]
		}
	}
	return ex.errType
}

func (ex *Exec) callSSA(caller *frame, fn *ssa.Function, args []Value, env []Value) Value {
	name := fn.String()
	if fn.Parent() == nil {
		if st := ex.eng.lookupStub(fn, name); st != nil {
			ex.stubHits[name]++
			return st(ex, caller, fn, args)
		}
	}
	if fn.Blocks == nil {
		if ex.tolerant > 0 {
			ex.note("init: no body for %s, zero result", name)
			return ex.zeroResult(fn)
		}
		panic(engineErr("no code for function %s [%s]", name, ex.stackString()))
	}
	if fn.TypeParams().Len() > 0 && len(fn.TypeArgs()) == 0 {
		panic(engineErr("uninstantiated generic %s", name))
	}
	ex.callStack = append(ex.callStack, fn)
	defer func() { ex.callStack = ex.callStack[:len(ex.callStack)-1] }()
	ex.depth++
	if ex.depth > 400 {
		panic(engineErr("call depth exceeded in %s", name))
	}
	defer func() { ex.depth-- }()
	if !ex.funcs[name] {
		ex.funcs[name] = true
	}
	fi := ex.eng.info(fn)
	fr := &frame{ex: ex, caller: caller, fn: fn, info: fi}
	fr.env = make([]Value, fi.n)
	fr.block = fn.Blocks[0]
	for _, l := range fn.Locals {
		p := new(Value)
		*p = ex.zero(deref(l.Type()))
		fr.set(l, p)
	}
	if len(args) != len(fn.Params) {
		panic(engineErr("arity mismatch calling %s: %d args, %d params", name, len(args), len(fn.Params)))
	}
	for i, p := range fn.Params {
		fr.env[fi.idx[p]] = args[i]
	}
	for i, fv := range fn.FreeVars {
		fr.env[fi.idx[fv]] = env[i]
	}
	for fr.block != nil {
		ex.runFrame(fr)
	}
	return fr.result
}

func (ex *Exec) zeroResult(fn *ssa.Function) Value {
	res := fn.Signature.Results()
	switch res.Len() {
	case 0:
		return nil
	case 1:
		return ex.zero(res.At(0).Type())
	}
	return ex.zero(res)
}

func (ex *Exec) runFrame(fr *frame) {
	defer func() {
		if fr.block == nil {
			return // normal return
		}
		r := recover()
		switch r.(type) {
		case targetPanic:
		default:
			panic(r) // engine errors, path ends, real bugs propagate
		}
		fr.panicking = true
		fr.panicVal = r
		fr.runDefers()
		fr.block = fr.fn.Recover
		if fr.block == nil {
			// no named results: return zero values
			fr.result = ex.zeroResult(fr.fn)
		}
	}()
	for {
		if fr.info.loopHead[fr.block.Index] {
			fr.checkLoop()
		}
		instrs := fr.execPhis()
		for _, in := range instrs {
			ex.stats.Steps++
			if ex.stats.Steps > ex.eng.opts.MaxSteps {
				panic(pathEnd{"steps", "step budget exceeded"})
			}
			if ex.eng.opts.Trace {
				if v, ok := in.(ssa.Value); ok {
					fmt.Printf("%*s%s: %s = %s\n", ex.depth, "", fr.fn.Name(), v.Name(), in)
				} else {
					fmt.Printf("%*s%s: %s\n", ex.depth, "", fr.fn.Name(), in)
				}
			}
			if fr.visit(in) == kReturn {
				return
			}
		}
	}
}

type continuation int

const (
	kNext continuation = iota
	kReturn
	kJump
)

// checkLoop: unwinding budget + lasso detection at loop heads.
func (fr *frame) checkLoop() {
	ex := fr.ex
	if fr.visits == nil {
		fr.visits = make(map[int]int)
		fr.lasso = make(map[int]lassoRec)
	}
	bi := fr.block.Index
	if fr.prevBlock == nil || !fr.block.Dominates(fr.prevBlock) {
		// fresh entry into the loop (not through its back edge): start counting anew
		fr.visits[bi] = 0
		delete(fr.lasso, bi)
	}
	fr.visits[bi]++
	// lasso: same phi values, no effect since last visit
	var phis []Value
	predIndex := -1
	for i, p := range fr.block.Preds {
		if p == fr.prevBlock {
			predIndex = i
			break
		}
	}
	if predIndex >= 0 {
		for _, in := range fr.block.Instrs {
			phi, ok := in.(*ssa.Phi)
			if !ok {
				break
			}
			phis = append(phis, fr.get(phi.Edges[predIndex]))
		}
	}
	if rec, ok := fr.lasso[bi]; ok && fr.visits[bi] > 1 && rec.effects == ex.effects && len(rec.phis) == len(phis) {
		same := true
		for i := range phis {
			if !identical(phis[i], rec.phis[i]) {
				same = false
				break
			}
		}
		if same {
			pos := ex.eng.prog.Fset.Position(fr.block.Instrs[0].Pos())
			ex.reportViolation("nonterm", "nontermination:"+fr.fn.Name(), fmt.Sprintf("loop at %s in %s repeats an identical state (lasso)", pos, fr.fn), true)
			panic(pathEnd{"nonterm", "lasso"})
		}
	}
	fr.lasso[bi] = lassoRec{effects: ex.effects, phis: phis}
	if fr.visits[bi] > ex.eng.opts.UnwindLimit {
		pos := ex.eng.prog.Fset.Position(fr.block.Instrs[0].Pos())
		ex.stats.UnwindFails++
		if ex.tolerant == 0 && !ex.replaying() {
			if r := ex.sol.CheckSat(); r != Unsat {
				ex.reportViolation("unwind", "unwind:"+fr.fn.Name(), fmt.Sprintf("loop at %s in %s exceeds the unwinding budget %d", pos, fr.fn, ex.eng.opts.UnwindLimit), r == Sat)
			}
		}
		panic(pathEnd{"unwind", fmt.Sprintf("unwinding budget %d exceeded at %s in %s", ex.eng.opts.UnwindLimit, pos, fr.fn)})
	}
}

func identical(a, b Value) bool {
	switch a := a.(type) {
	case *Term:
		bt, ok := b.(*Term)
		return ok && a == bt
	case *StrV:
		bs, ok := b.(*StrV)
		if !ok || len(a.b) != len(bs.b) {
			return false
		}
		for i := range a.b {
			if a.b[i] != bs.b[i] {
				return false
			}
		}
		return true
	case *Value:
		bp, ok := b.(*Value)
		return ok && a == bp
	case *SliceV:
		bs, ok := b.(*SliceV)
		if !ok {
			return false
		}
		if a.isNil() || bs.isNil() {
			return a.isNil() && bs.isNil()
		}
		if a.len != bs.len || a.cap != bs.cap || a.sp != bs.sp || a.off != bs.off {
			return false
		}
		if a.sp == nil {
			if len(a.dense) == 0 || len(bs.dense) == 0 {
				return len(a.dense) == len(bs.dense)
			}
			return &a.dense[0] == &bs.dense[0]
		}
		return true
	case *MapV:
		bm, ok := b.(*MapV)
		return ok && a == bm
	case IfaceV:
		bi, ok := b.(IfaceV)
		if !ok {
			return false
		}
		if a.t == nil || bi.t == nil {
			return a.t == nil && bi.t == nil
		}
		return types.Identical(a.t, bi.t) && identical(a.v, bi.v)
	case nil:
		return b == nil
	case StructV:
		bs, ok := b.(StructV)
		if !ok || len(a) != len(bs) {
			return false
		}
		for i := range a {
			if !identical(a[i], bs[i]) {
				return false
			}
		}
		return true
	case *Closure:
		bc, ok := b.(*Closure)
		return ok && a == bc
	case *ssa.Function:
		bf, ok := b.(*ssa.Function)
		return ok && a == bf
	}
	return false
}

func (fr *frame) execPhis() []ssa.Instruction {
	instrs := fr.block.Instrs
	n := 0
	for n < len(instrs) {
		if _, ok := instrs[n].(*ssa.Phi); !ok {
			break
		}
		n++
	}
	if n > 0 {
		predIndex := -1
		for i, p := range fr.block.Preds {
			if p == fr.prevBlock {
				predIndex = i
				break
			}
		}
		tmp := make([]Value, n)
		for i := 0; i < n; i++ {
			tmp[i] = fr.get(instrs[i].(*ssa.Phi).Edges[predIndex])
		}
		for i := 0; i < n; i++ {
			fr.set(instrs[i].(*ssa.Phi), tmp[i])
		}
	}
	return instrs[n:]
}

func (fr *frame) runDefers() {
	for d := fr.defers; d != nil; d = d.tail {
		fr.runDefer(d)
	}
	fr.defers = nil
	if fr.panicking {
		panic(fr.panicVal)
	}
}

func (fr *frame) runDefer(d *deferred) {
	var ok bool
	defer func() {
		if !ok {
			r := recover()
			if tp, isTP := r.(targetPanic); isTP {
				fr.panicking = true
				fr.panicVal = tp
			} else {
				panic(r)
			}
		}
	}()
	fr.ex.call(fr, d.fn, d.args, token.NoPos)
	ok = true
}

func (fr *frame) prepareCall(c *ssa.CallCommon) (Value, []Value) {
	ex := fr.ex
	v := fr.get(c.Value)
	var fn Value
	var args []Value
	if c.Method == nil {
		fn = v
	} else {
		recv, ok := v.(IfaceV)
		if !ok {
			panic(engineErr("invoke on non-interface %T", v))
		}
		if recv.t == nil {
			ex.throw("invalid memory address or nil pointer dereference (method " + c.Method.Name() + " on nil interface)")
		}
		f := ex.eng.lookupMethod(recv.t, c.Method.Pkg(), c.Method.Name())
		if f == nil {
			panic(engineErr("method %s not found for %s", c.Method.Name(), recv.t))
		}
		fn = f
		args = append(args, recv.v)
	}
	for _, a := range c.Args {
		args = append(args, fr.get(a))
	}
	return fn, args
}

// ---------------------------------------------------------------- instructions

func (fr *frame) visit(instr ssa.Instruction) continuation {
	ex := fr.ex
	ex.curFn = fr.fn
	switch in := instr.(type) {
	case *ssa.DebugRef:
	case *ssa.UnOp:
		fr.set(in, ex.unop(in, fr.get(in.X)))
	case *ssa.BinOp:
		fr.set(in, ex.binop(in.Op, in.X.Type(), fr.get(in.X), fr.get(in.Y)))
	case *ssa.Call:
		fn, args := fr.prepareCall(&in.Call)
		if ex.tolerant > 0 && fr.fn.Synthetic == "package initializer" {
			fr.set(in, ex.tolerantCall(fr, in, fn, args))
		} else {
			fr.set(in, ex.call(fr, fn, args, in.Pos()))
		}
	case *ssa.ChangeInterface:
		fr.set(in, fr.get(in.X))
	case *ssa.ChangeType:
		fr.set(in, fr.get(in.X))
	case *ssa.Convert:
		fr.set(in, ex.conv(in.Type(), in.X.Type(), fr.get(in.X)))
	case *ssa.MultiConvert:
		fr.set(in, ex.conv(in.Type(), in.X.Type(), fr.get(in.X)))
	case *ssa.SliceToArrayPointer:
		s := fr.get(in.X).(*SliceV)
		n := deref(in.Type()).Underlying().(*types.Array).Len()
		if s.isNil() {
			if n == 0 {
				fr.set(in, (*Value)(nil))
				break
			}
			ex.throw("cannot convert slice with length 0 to array or pointer to array")
		}
		if ex.sliceLen(s) < n {
			ex.throw("cannot convert slice to array pointer: length too short")
		}
		if s.sp != nil {
			panic(engineErr("SliceToArrayPointer on sparse slice"))
		}
		p := new(Value)
		*p = ArrV(s.dense[:n:n])
		fr.set(in, p)
	case *ssa.MakeInterface:
		fr.set(in, IfaceV{t: in.X.Type(), v: fr.get(in.X)})
	case *ssa.Extract:
		fr.set(in, fr.get(in.Tuple).(Tuple)[in.Index])
	case *ssa.Slice:
		cv := func(v ssa.Value) Value {
			if v == nil {
				return nil
			}
			return ex.toIndex(fr.get(v).(*Term), isSigned(v.Type()))
		}
		fr.set(in, ex.sliceOp(in, fr.get(in.X), cv(in.Low), cv(in.High), cv(in.Max)))
	case *ssa.Return:
		switch len(in.Results) {
		case 0:
		case 1:
			fr.result = fr.get(in.Results[0])
		default:
			res := make(Tuple, len(in.Results))
			for i, r := range in.Results {
				res[i] = fr.get(r)
			}
			fr.result = res
		}
		fr.block = nil
		return kReturn
	case *ssa.RunDefers:
		fr.runDefers()
	case *ssa.Panic:
		v := fr.get(in.X)
		panic(targetPanic{v: v, msg: ex.panicMessage(v), where: ex.whereName()})
	case *ssa.Send:
		ex.chanSend(fr.get(in.Chan).(*ChanV), fr.get(in.X))
	case *ssa.Store:
		addr, _ := fr.get(in.Addr).(*Value)
		if addr == nil {
			ex.throw("invalid memory address or nil pointer dereference")
		}
		ex.effect()
		store(addr, fr.get(in.Val))
	case *ssa.If:
		succ := 1
		if ex.branch(fr.get(in.Cond).(*Term)) {
			succ = 0
		}
		fr.prevBlock, fr.block = fr.block, fr.block.Succs[succ]
		return kJump
	case *ssa.Jump:
		fr.prevBlock, fr.block = fr.block, fr.block.Succs[0]
		return kJump
	case *ssa.Defer:
		fn, args := fr.prepareCall(&in.Call)
		fr.defers = &deferred{fn: fn, args: args, tail: fr.defers}
	case *ssa.Go:
		fn, args := fr.prepareCall(&in.Call)
		ex.spawn(fr, fn, args)
	case *ssa.MakeChan:
		n := ex.concretize(fr.get(in.Size).(*Term), "chan size")
		fr.set(in, &ChanV{cap: int(n), elemT: in.Type().Underlying().(*types.Chan).Elem()})
	case *ssa.Alloc:
		p := new(Value)
		*p = ex.zero(deref(in.Type()))
		if in.Heap {
			fr.set(in, p)
		} else {
			// locals are re-zeroed in place
			fr.set(in, p)
		}
	case *ssa.MakeSlice:
		fr.set(in, ex.makeSlice(in.Type(), fr.get(in.Len).(*Term), fr.get(in.Cap).(*Term)))
	case *ssa.MakeMap:
		ex.heapSeq++
		fr.set(in, &MapV{t: in.Type().Underlying().(*types.Map)})
	case *ssa.Range:
		fr.set(in, ex.rangeIter(fr.get(in.X), in.X.Type()))
	case *ssa.Next:
		ex.effect() // advances hidden iterator state
		fr.set(in, fr.get(in.Iter).(iterator).next(ex))
	case *ssa.FieldAddr:
		p, _ := fr.get(in.X).(*Value)
		if p == nil {
			ex.throw("invalid memory address or nil pointer dereference")
		}
		s, ok := (*p).(StructV)
		if !ok {
			panic(engineErr("FieldAddr on %T (%s) in %s", *p, in.X.Type(), fr.fn))
		}
		fr.set(in, &s[in.Field])
	case *ssa.Field:
		fr.set(in, copyVal(fr.get(in.X).(StructV)[in.Field]))
	case *ssa.IndexAddr:
		fr.set(in, ex.indexAddr(fr.get(in.X), ex.toIndex(fr.get(in.Index).(*Term), isSigned(in.Index.Type()))))
	case *ssa.Index:
		fr.set(in, ex.index(fr.get(in.X), ex.toIndex(fr.get(in.Index).(*Term), isSigned(in.Index.Type()))))
	case *ssa.Lookup:
		fr.set(in, ex.lookup(in, fr.get(in.X), fr.get(in.Index)))
	case *ssa.MapUpdate:
		m, _ := fr.get(in.Map).(*MapV)
		if m == nil {
			ex.throw("assignment to entry in nil map")
		}
		ex.effect()
		ex.mapInsert(m, fr.get(in.Key), copyVal(fr.get(in.Value)))
	case *ssa.TypeAssert:
		fr.set(in, ex.typeAssert(in, fr.get(in.X).(IfaceV)))
	case *ssa.MakeClosure:
		var b []Value
		for _, x := range in.Bindings {
			b = append(b, fr.get(x))
		}
		fr.set(in, &Closure{fn: in.Fn.(*ssa.Function), env: b})
	case *ssa.Select:
		fr.set(in, ex.selectOp(in, fr))
	default:
		panic(engineErr("unexpected instruction %T", instr))
	}
	return kNext
}

func (ex *Exec) panicMessage(v Value) string {
	switch x := v.(type) {
	case IfaceV:
		if x.t == nil {
			return "panic(nil)"
		}
		if s, ok := x.v.(*StrV); ok {
			return s.String()
		}
		// error values: try Error()
		if m := ex.eng.lookupMethod(x.t, nil, "Error"); m != nil {
			var res Value
			func() {
				defer func() {
					if r := recover(); r != nil {
						if _, ok := r.(engineError); !ok {
							if _, ok := r.(targetPanic); !ok {
								panic(r)
							}
						}
					}
				}()
				res = ex.callSSA(nil, m, []Value{x.v}, nil)
			}()
			if s, ok := res.(*StrV); ok {
				return s.String()
			}
		}
		return "panic(" + typeString(x.t) + ")"
	}
	return describe(v)
}

func (ex *Exec) spawn(fr *frame, fn Value, args []Value) {
	switch ex.goMode {
	case "inline":
		ex.call(fr, fn, args, token.NoPos)
	case "defer":
		ex.pending = append(ex.pending, func() { ex.call(nil, fn, args, token.NoPos) })
	case "drop":
	case "threads":
		ex.sched().spawn(ex, fn, args)
	default:
		panic(engineErr("unknown go mode %q", ex.goMode))
	}
}

// runPending runs the goroutines queued in "defer" mode. A goroutine that blocks (vpWaitUntil with a false
// condition before it had any effect) is put back and retried on the next call.
func (ex *Exec) runPending() {
	var blocked []func()
	for len(ex.pending) > 0 {
		f := ex.pending[0]
		ex.pending = ex.pending[1:]
		func() {
			ex.inPending++
			saveDepth := ex.depth
			defer func() {
				ex.inPending--
				if r := recover(); r != nil {
					if _, ok := r.(goBlocked); ok {
						ex.depth = saveDepth
						blocked = append(blocked, f)
						return
					}
					panic(r)
				}
			}()
			f()
		}()
	}
	ex.pending = blocked
}

// ---------------------------------------------------------------- slices & indexing

const denseLimit = 1 << 14

func (ex *Exec) makeSlice(t types.Type, ln, cp *Term) *SliceV {
	ln = ex.to64(ln)
	cp = ex.to64(cp)
	elemT := t.Underlying().(*types.Slice).Elem()
	ex.heapSeq++
	// negative / inconsistent sizes panic
	if !ex.branch(ex.tc.Cmp(OSle, ex.i64(0), ln)) {
		ex.throw("makeslice: len out of range")
	}
	if !ex.branch(ex.tc.Cmp(OSle, ln, cp)) {
		ex.throw("makeslice: cap out of range")
	}
	if cp.IsConst() && cp.val <= denseLimit {
		d := make([]Value, cp.val)
		for i := range d {
			d[i] = ex.zero(elemT)
		}
		return &SliceV{dense: d, len: ln, cap: cp}
	}
	// symbolic or large: sparse slab (element type must be scalar)
	if _, ok := elemT.Underlying().(*types.Basic); !ok {
		n := ex.concretize(cp, "make cap")
		if n > denseLimit {
			panic(engineErr("makeslice: non-scalar slice too large (%d)", n))
		}
		d := make([]Value, n)
		for i := range d {
			d[i] = ex.zero(elemT)
		}
		return &SliceV{dense: d, len: ln, cap: ex.i64(int64(n))}
	}
	z := ex.zero(elemT)
	sp := &Sparse{cells: make(map[int64]*Value), length: cp, zero: func() Value { return z }}
	return &SliceV{sp: sp, len: ln, cap: cp}
}

func (ex *Exec) to64(t *Term) *Term {
	if t.w == 64 {
		return t
	}
	return ex.tc.Sext(64, t)
}

// toIndex converts an index term of any integer type to a 64-bit signed term.
func (ex *Exec) toIndex(t *Term, signed bool) *Term {
	if t.w == 64 {
		return t
	}
	if signed {
		return ex.tc.Sext(64, t)
	}
	return ex.tc.Zext(64, t)
}

// checkIndex enforces 0 <= i < n (panic branch otherwise) and returns the concrete index.
func (ex *Exec) checkIndex(i, n *Term) int64 {
	inb := ex.tc.Cmp(OUlt, i, n) // unsigned compare covers negative
	if !ex.branch(inb) {
		ex.throw(fmt.Sprintf("index out of range [%s] with length %s", i, n))
	}
	return int64(ex.concretize(i, "index"))
}

func (ex *Exec) indexAddr(x Value, idx *Term) *Value {
	i := ex.to64(idx)
	switch x := x.(type) {
	case *SliceV:
		if x.isNil() {
			ex.throw("index out of range (nil slice)")
		}
		k := ex.checkIndex(i, x.len)
		return x.elem(k)
	case *Value: // *array
		if x == nil {
			ex.throw("invalid memory address or nil pointer dereference")
		}
		a := (*x).(ArrV)
		k := ex.checkIndex(i, ex.i64(int64(len(a))))
		return &a[k]
	}
	panic(engineErr("IndexAddr on %T", x))
}

func (ex *Exec) index(x Value, idx *Term) Value {
	i := ex.to64(idx)
	switch x := x.(type) {
	case ArrV:
		k := ex.checkIndex(i, ex.i64(int64(len(x))))
		return copyVal(x[k])
	case *StrV:
		k := ex.checkIndex(i, ex.i64(int64(len(x.b))))
		return x.b[k]
	}
	panic(engineErr("Index on %T", x))
}

func (ex *Exec) sliceOp(in *ssa.Slice, x, lo, hi, max Value) Value {
	tc := ex.tc
	var loT, hiT, maxT *Term
	if lo != nil {
		loT = ex.to64(lo.(*Term))
	} else {
		loT = ex.i64(0)
	}
	if hi != nil {
		hiT = ex.to64(hi.(*Term))
	}
	if max != nil {
		maxT = ex.to64(max.(*Term))
	}
	switch x := x.(type) {
	case *StrV:
		n := int64(len(x.b))
		if hiT == nil {
			hiT = ex.i64(n)
		}
		ok := tc.And(tc.Cmp(OUle, loT, hiT), tc.Cmp(OUle, hiT, ex.i64(n)))
		if !ex.branch(ok) {
			ex.throw(fmt.Sprintf("slice bounds out of range [%s:%s] with length %d", loT, hiT, n))
		}
		l := int64(ex.concretize(loT, "slice low"))
		h := int64(ex.concretize(hiT, "slice high"))
		return &StrV{b: x.b[l:h], src: x.subAlias(l)}
	case *Value: // *array
		if x == nil {
			ex.throw("invalid memory address or nil pointer dereference")
		}
		a := (*x).(ArrV)
		n := int64(len(a))
		if hiT == nil {
			hiT = ex.i64(n)
		}
		if maxT == nil {
			maxT = ex.i64(n)
		}
		ok := tc.And(tc.And(tc.Cmp(OUle, loT, hiT), tc.Cmp(OUle, hiT, maxT)), tc.Cmp(OUle, maxT, ex.i64(n)))
		if !ex.branch(ok) {
			ex.throw("slice bounds out of range")
		}
		l := int64(ex.concretize(loT, "slice low"))
		h := int64(ex.concretize(hiT, "slice high"))
		m := int64(ex.concretize(maxT, "slice max"))
		return &SliceV{dense: []Value(a)[l:m:m], len: ex.i64(h - l), cap: ex.i64(m - l)}
	case *SliceV:
		if x.isNil() {
			if hiT == nil {
				hiT = ex.i64(0)
			}
			if maxT == nil {
				maxT = ex.i64(0)
			}
			ok := tc.And(tc.Eq(loT, ex.i64(0)), tc.And(tc.Eq(hiT, ex.i64(0)), tc.Eq(maxT, ex.i64(0))))
			if !ex.branch(ok) {
				ex.throw("slice bounds out of range (nil slice)")
			}
			return (*SliceV)(nil)
		}
		if hiT == nil {
			hiT = x.len
		}
		if maxT == nil {
			maxT = x.cap
		}
		ok := tc.And(tc.And(tc.Cmp(OUle, loT, hiT), tc.Cmp(OUle, hiT, maxT)), tc.Cmp(OUle, maxT, x.cap))
		if !ex.branch(ok) {
			ex.throw(fmt.Sprintf("slice bounds out of range [%s:%s] with capacity %s", loT, hiT, x.cap))
		}
		l := int64(ex.concretize(loT, "slice low"))
		newLen := tc.Bin(OSub, hiT, ex.i64(l))
		newCap := tc.Bin(OSub, maxT, ex.i64(l))
		if x.sp != nil {
			return &SliceV{sp: x.sp, off: x.off + l, len: newLen, cap: newCap}
		}
		m := int64(ex.concretize(maxT, "slice max"))
		return &SliceV{dense: x.dense[l:m:m], len: newLen, cap: newCap}
	}
	panic(engineErr("slice of %T", x))
}

// ---------------------------------------------------------------- type assertions

func (ex *Exec) typeAssert(in *ssa.TypeAssert, itf IfaceV) Value {
	var ok bool
	var v Value
	if itf.t != nil {
		if types.IsInterface(in.AssertedType) {
			if it, isI := in.AssertedType.Underlying().(*types.Interface); isI {
				ok = types.Implements(itf.t, it)
				if !ok {
					if _, isPtr := itf.t.(*types.Pointer); !isPtr {
						// value types: method set of T
						ok = types.Implements(itf.t, it)
					}
				}
			}
			v = itf
		} else {
			ok = types.Identical(itf.t, in.AssertedType)
			v = itf.v
		}
	}
	if in.CommaOk {
		if !ok {
			v = ex.zero(in.AssertedType)
		}
		return Tuple{v, ex.tc.Bool(ok)}
	}
	if !ok {
		ex.throw(fmt.Sprintf("interface conversion: interface is %s, not %s", typeString(itf.t), in.AssertedType))
	}
	return v
}

// ---------------------------------------------------------------- channels / select (sequential model)

func (ex *Exec) chanSend(c *ChanV, v Value) {
	if c == nil {
		panic(pathEnd{"block", "send on nil channel blocks forever"})
	}
	if c.closed {
		ex.throw("send on closed channel")
	}
	ex.effect()
	if ex.threads != nil {
		ex.threads.chanSend(ex, c, v)
		return
	}
	if len(c.buf) >= c.cap && c.cap > 0 {
		panic(pathEnd{"block", "send on full channel in sequential mode"})
	}
	c.buf = append(c.buf, v)
}

func (ex *Exec) chanRecv(c *ChanV, commaOk bool) Value {
	if c == nil {
		panic(pathEnd{"block", "receive on nil channel blocks forever"})
	}
	ex.effect()
	if ex.threads != nil {
		return ex.threads.chanRecv(ex, c, commaOk)
	}
	var v Value
	ok := true
	if len(c.buf) > 0 {
		v = c.buf[0]
		c.buf = c.buf[1:]
	} else if c.closed {
		v = ex.zero(c.elemT)
		ok = false
	} else {
		ex.runPending()
		for len(c.buf) == 0 && !c.closed {
			if !ex.fireNextTimer(nil) {
				panic(pathEnd{"block", "receive on empty channel in sequential mode"})
			}
		}
		if len(c.buf) > 0 {
			v = c.buf[0]
			c.buf = c.buf[1:]
		} else {
			v = ex.zero(c.elemT)
			ok = false
		}
	}
	if commaOk {
		return Tuple{v, ex.tc.Bool(ok)}
	}
	return v
}

func (ex *Exec) selectOp(in *ssa.Select, fr *frame) Value {
	// sequential model: first ready case in source order; default if none; block = path end
	chosen := -1
	var recv Value
	recvOk := false
retry:
	for i, st := range in.States {
		c, _ := fr.get(st.Chan).(*ChanV)
		if c == nil {
			continue
		}
		if st.Dir == types.RecvOnly {
			if len(c.buf) > 0 || c.closed {
				chosen = i
				if len(c.buf) > 0 {
					recv = c.buf[0]
					c.buf = c.buf[1:]
					recvOk = true
				} else {
					recv = ex.zero(c.elemT)
				}
				break
			}
		} else {
			if c.closed {
				ex.throw("send on closed channel")
			}
			if c.cap == 0 || len(c.buf) < c.cap {
				if c.cap == 0 {
					continue // unbuffered send with no receiver: not ready
				}
				c.buf = append(c.buf, fr.get(st.Send))
				chosen = i
				break
			}
		}
	}
	if chosen < 0 && in.Blocking {
		if ex.fireNextTimer(fr) {
			goto retry
		}
		panic(pathEnd{"block", "select blocks in sequential mode"})
	}
	ex.effect()
	r := Tuple{ex.i64(int64(chosen)), ex.tc.Bool(recvOk)}
	for i, st := range in.States {
		if st.Dir == types.RecvOnly {
			if i == chosen {
				r = append(r, recv)
			} else {
				r = append(r, ex.zero(st.Chan.Type().Underlying().(*types.Chan).Elem()))
			}
		}
	}
	return r
}

// ---------------------------------------------------------------- misc

func sortedKeys(m map[string]bool) []string {
	var ks []string
	for k := range m {
		ks = append(ks, k)
	}
	sort.Strings(ks)
	return ks
}

// lookupMethod returns the method named name of type t, or nil (prog.LookupMethod panics when absent).
func (e *Engine) lookupMethod(t types.Type, pkg *types.Package, name string) *ssa.Function {
	sel := e.prog.MethodSets.MethodSet(t).Lookup(pkg, name)
	if sel == nil {
		return nil
	}
	return e.prog.MethodValue(sel)
}
