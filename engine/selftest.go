package main

// symgo selftest: interpreter conformance. Every function of verif/symgo/conform is run natively and through the
// interpreter (constant arguments, and solver variables pinned to the same values) and the results are compared.

import (
	"fmt"
	"os"
	"sort"

	"golang.org/x/tools/go/packages"
	"golang.org/x/tools/go/ssa"
	"golang.org/x/tools/go/ssa/ssautil"

	"verif/symgo/conform"
)

func cmdSelftest(args []string) int {
	dir := os.Getenv("VERIF_ENGINE_DIR")
	if dir == "" {
		dir = verifDir + "/engine"
	}
	cfg := &packages.Config{
		Mode: packages.NeedName | packages.NeedFiles | packages.NeedCompiledGoFiles | packages.NeedImports | packages.NeedDeps | packages.NeedTypes | packages.NeedSyntax | packages.NeedTypesInfo | packages.NeedTypesSizes | packages.NeedModule,
		Dir:  dir,
		Env:  goEnv(),
	}
	pkgs, err := packages.Load(cfg, "verif/symgo/conform")
	if err != nil || len(pkgs) == 0 || len(pkgs[0].Errors) > 0 {
		fmt.Println("selftest: cannot load the conformance package:", err)
		return 2
	}
	prog, spkgs := ssautil.AllPackages(pkgs, ssa.InstantiateGenerics)
	prog.Build()
	eng := &Engine{prog: prog, stubs: buildStubs(), pkgByPath: map[string]*ssa.Package{}, opts: defaultOptions()}
	for _, p := range prog.AllPackages() {
		eng.pkgByPath[p.Pkg.Path()] = p
	}
	cp := spkgs[0]
	// the map literal's closures are the anonymous functions of the package initialiser, in source order = key order
	// of the literal; resolve them by interpreting the initialiser and reading the map
	sol, err := NewSolver(eng.opts.SolverBin, eng.opts.TimeoutMs, nil)
	if err != nil {
		fmt.Println("selftest: solver:", err)
		return 2
	}
	defer sol.Close()
	var names []string
	for n := range conform.Funcs {
		names = append(names, n)
	}
	sort.Strings(names)
	inputs := [][2]uint64{{0, 0}, {1, 2}, {7, 3}, {255, 256}, {1 << 31, 1<<31 - 1}, {^uint64(0), 1}, {1 << 63, ^uint64(0)}, {12345678901234567, 98765}, {6, 10}, {100, 35}}
	seed := uint64(0x9E3779B97F4A7C15)
	for i := 0; i < 6; i++ {
		seed ^= seed << 13
		seed ^= seed >> 7
		seed ^= seed << 17
		inputs = append(inputs, [2]uint64{seed, seed * 0xD1342543DE82EF95})
	}
	fails, runs := 0, 0
	for _, name := range names {
		for _, in := range inputs {
			want := conform.Funcs[name](in[0], in[1])
			for mode := 0; mode < 2; mode++ {
				if mode == 1 && (name == "strings" || name == "strconv_rt") {
					// formatting a symbolic number is a contract stub (opaque text), not a conformance subject
					continue
				}
				runs++
				got, err := selftestRun(eng, sol, cp, name, in, mode == 1)
				if err != nil {
					fails++
					fmt.Printf("selftest FAIL %s(%d,%d) mode=%d: %v\n", name, in[0], in[1], mode, err)
					continue
				}
				if got != want {
					fails++
					fmt.Printf("selftest FAIL %s(%d,%d) mode=%d: interpreter %d, native %d\n", name, in[0], in[1], mode, got, want)
				}
			}
		}
	}
	fmt.Printf("selftest: %d functions, %d runs, %d failures\n", len(names), runs, fails)
	if fails > 0 {
		return 2
	}
	return 0
}

func selftestRun(eng *Engine, sol *Solver, cp *ssa.Package, name string, in [2]uint64, symbolic bool) (res uint64, err error) {
	sol.Reset()
	ex := NewExec(eng, sol, "selftest."+name, nil)
	ex.entryPkg = cp
	defer func() {
		if r := recover(); r != nil {
			err = fmt.Errorf("%v", r)
		}
	}()
	g := cp.Var("Funcs")
	mv, _ := (*ex.globalAddr(g)).(*MapV)
	if mv == nil {
		return 0, fmt.Errorf("Funcs map not initialised")
	}
	e := ex.mapFind(mv, ex.mkStr(name))
	if e == nil {
		return 0, fmt.Errorf("function not found in map")
	}
	var a, b *Term
	if symbolic {
		a, b = ex.tc.Var(64, "sa"), ex.tc.Var(64, "sb")
		ex.addPC(ex.tc.Eq(a, ex.tc.Const(64, in[0])))
		ex.addPC(ex.tc.Eq(b, ex.tc.Const(64, in[1])))
	} else {
		a, b = ex.tc.Const(64, in[0]), ex.tc.Const(64, in[1])
	}
	out := ex.call(nil, *e.v, []Value{a, b}, 0)
	t, ok := out.(*Term)
	if !ok {
		return 0, fmt.Errorf("result is %T", out)
	}
	if t.IsConst() {
		return t.val, nil
	}
	// the value must be determined by the pinned inputs: ask the solver for it and check uniqueness
	if sol.CheckSat() != Sat {
		return 0, fmt.Errorf("path condition unsatisfiable")
	}
	sol.Define(t)
	v, gerr := sol.getTermValue(t)
	if gerr != nil {
		return 0, gerr
	}
	if sol.CheckWith(ex.tc.Not(ex.tc.Eq(t, ex.tc.Const(64, v)))) != Unsat {
		return 0, fmt.Errorf("result not determined by the inputs")
	}
	return v, nil
}
