package main

func cmdSelftest(args []string) int { return 0 }
