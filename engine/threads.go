package main

// Concurrent mode (placeholder until the scheduler is built): sequential executions have threads == nil.

type scheduler struct{}
type thread struct{}

func (s *scheduler) spawn(ex *Exec, fn Value, args []Value)          { panic(engineErr("threads mode not built")) }
func (s *scheduler) chanSend(ex *Exec, c *ChanV, v Value)            { panic(engineErr("threads mode not built")) }
func (s *scheduler) chanRecv(ex *Exec, c *ChanV, commaOk bool) Value { panic(engineErr("threads mode not built")) }
func (s *scheduler) wakeAll()                                        {}
func (s *scheduler) lock(ex *Exec, m StructV, write bool)            { panic(engineErr("threads mode not built")) }
func (s *scheduler) unlock(ex *Exec, m StructV, write bool)          { panic(engineErr("threads mode not built")) }
func (s *scheduler) tryLock(ex *Exec, m StructV) bool                { panic(engineErr("threads mode not built")) }
