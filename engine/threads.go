package main

// Concurrent mode: interpreted threads (created by the vpGo intrinsic) are real goroutines that hand control to
// each other explicitly, so exactly one runs at any time. Context switches happen only at yield points - operations
// on the mutexes of the code under test (fragment locks, the named locker), RPC boundaries and vpYield() - and the
// scheduler's pick at each yield point is one more decision of the path exploration: every interleaving at that
// granularity is explored, with the data still symbolic.

import (
	"fmt"
	"strings"
	"sync"
)

type threadKill struct{}

type thread struct {
	id      int
	wake    chan struct{}
	state   int // 0 runnable, 1 blocked on a mutex, 2 finished, 3 waiting in join
	waitOn  *Value
	fn      Value
	kill    bool
	started bool
}

type scheduler struct {
	ex      *Exec
	threads []*thread
	cur     *thread
	abort   interface{}
	wg      sync.WaitGroup
	steps   int
	preempt int
	bound   int
}

func (ex *Exec) sched() *scheduler {
	if ex.threads == nil {
		s := &scheduler{ex: ex, bound: 2}
		if b, ok := ex.eng.opts.Bounds["preempt"]; ok {
			s.bound = int(b)
		}
		main := &thread{id: 0, wake: make(chan struct{}, 1), started: true}
		s.threads = []*thread{main}
		s.cur = main
		ex.threads = s
	}
	return ex.threads
}

// spawn registers a new thread; it starts running when the scheduler first picks it.
func (s *scheduler) spawnThread(fn Value) {
	t := &thread{id: len(s.threads), wake: make(chan struct{}, 1), fn: fn}
	s.threads = append(s.threads, t)
	s.wg.Add(1)
	go func() {
		defer s.wg.Done()
		<-t.wake
		if t.kill {
			t.state = 2
			return
		}
		t.started = true
		func() {
			defer func() {
				if r := recover(); r != nil {
					if _, ok := r.(threadKill); !ok && s.abort == nil {
						s.abort = r
					}
				}
			}()
			s.ex.call(nil, t.fn, nil, 0)
		}()
		t.state = 2
		s.ex.effect()
		s.exitThread(t)
	}()
}

// exitThread hands control to another thread when t has finished (or aborted).
func (s *scheduler) exitThread(t *thread) {
	if s.abort != nil {
		s.wakeThread(s.threads[0])
		return
	}
	// wake joiners if everything else is done
	next := s.pickRunnable(nil)
	if next == nil {
		main := s.threads[0]
		if main.state == 3 {
			if s.allOthersFinished() {
				main.state = 0
				s.wakeThread(main)
				return
			}
			// some thread is blocked forever
			s.abort = pathEnd{"deadlock", "all threads blocked"}
			s.deadlock()
			s.wakeThread(main)
			return
		}
		return
	}
	s.wakeThread(next)
}

func (s *scheduler) deadlock() {
	s.ex.reportViolation("deadlock", "deadlock", "every thread is blocked on a lock", true)
}

func (s *scheduler) allOthersFinished() bool {
	for _, t := range s.threads[1:] {
		if t.state != 2 {
			return false
		}
	}
	return true
}

func (s *scheduler) wakeThread(t *thread) {
	s.cur = t
	t.wake <- struct{}{}
}

func (s *scheduler) runnable() []*thread {
	var rs []*thread
	for _, t := range s.threads {
		if t.state == 0 {
			rs = append(rs, t)
		}
	}
	return rs
}

// pickRunnable lets the exploration choose the next thread among the runnable ones (nil if none).
func (s *scheduler) pickRunnable(prefer *thread) *thread {
	rs := s.runnable()
	if len(rs) == 0 {
		return nil
	}
	if len(rs) == 1 {
		return rs[0]
	}
	k := s.ex.choose(len(rs))
	s.ex.recordConcreteInput("sched", "pick", uint64(rs[k].id))
	return rs[k]
}

// waitTurn parks the calling thread until it is woken.
func (s *scheduler) waitTurn(me *thread) {
	<-me.wake
	if me.kill {
		panic(threadKill{})
	}
	if s.abort != nil && me.id == 0 {
		a := s.abort
		s.abort = nil
		panic(a)
	}
}

// yield is a scheduling point: any runnable thread (including the caller) may continue.
func (s *scheduler) yield() {
	me := s.cur
	s.steps++
	if s.steps > 4000 {
		panic(pathEnd{"steps", "scheduler step budget exceeded"})
	}
	// preemption bounding (CHESS): switching away from a thread that could continue counts as a preemption;
	// at most `bound` of them per execution (switches at blocking points and thread exits are free)
	if me.state == 0 && s.preempt >= s.bound {
		return
	}
	next := s.pickRunnable(me)
	if next == nil || next == me {
		return
	}
	s.preempt++
	s.wakeThread(next)
	s.waitTurn(me)
}

// block parks the caller until woken by an unlock (state must have been set by the caller).
func (s *scheduler) block(me *thread) {
	next := s.pickRunnable(nil)
	if next == nil {
		s.deadlock()
		panic(pathEnd{"deadlock", "all threads blocked"})
	}
	s.wakeThread(next)
	s.waitTurn(me)
}

// join: the main thread waits until every other thread has finished.
func (s *scheduler) join() {
	me := s.cur
	if me.id != 0 {
		panic(engineErr("vpJoin outside the main thread"))
	}
	for !s.allOthersFinished() {
		me.state = 3
		next := s.pickRunnable(nil)
		if next == nil {
			s.deadlock()
			panic(pathEnd{"deadlock", "threads blocked at join"})
		}
		s.wakeThread(next)
		s.waitTurn(me)
		me.state = 0
	}
	me.state = 0
	s.cur = me
}

// killAll terminates every parked thread (path end).
func (s *scheduler) killAll() {
	for _, t := range s.threads[1:] {
		if t.state != 2 {
			t.kill = true
			select {
			case t.wake <- struct{}{}:
			default:
			}
		}
	}
	s.wg.Wait()
}

// ---- mutex model in concurrent mode: field 0 of the mutex struct holds 0 free, -1 writer, n>0 readers

func (s *scheduler) isYieldingCaller() bool {
	fn := s.ex.curFn
	if fn == nil || fn.Pkg == nil {
		return false
	}
	p := fn.Pkg.Pkg.Path()
	return strings.HasSuffix(p, "/internal/dmap") || strings.HasSuffix(p, "/internal/locker") || strings.HasSuffix(p, "/internal/pubsub")
}

func (s *scheduler) lock(ex *Exec, m StructV, write bool) {
	me := s.cur
	cell := &m[0]
	yielding := s.isYieldingCaller()
	if yielding {
		s.yield()
	}
	for {
		st := (*cell).(*Term)
		v := st.SVal()
		if write && v == 0 {
			*cell = ex.tc.Const(int(st.w), ^uint64(0))
			return
		}
		if !write && v >= 0 {
			*cell = ex.tc.Const(int(st.w), uint64(v+1))
			return
		}
		me.state = 1
		me.waitOn = cell
		s.block(me)
	}
}

func (s *scheduler) unlock(ex *Exec, m StructV, write bool) {
	cell := &m[0]
	st := (*cell).(*Term)
	v := st.SVal()
	if write {
		if v != -1 {
			ex.throw("sync: unlock of unlocked mutex")
		}
		*cell = ex.tc.Const(int(st.w), 0)
	} else {
		if v <= 0 {
			ex.throw("sync: RUnlock of unlocked RWMutex")
		}
		*cell = ex.tc.Const(int(st.w), uint64(v-1))
	}
	for _, t := range s.threads {
		if t.state == 1 && t.waitOn == cell {
			t.state = 0
			t.waitOn = nil
		}
	}
}

func (s *scheduler) tryLock(ex *Exec, m StructV) bool {
	cell := &m[0]
	st := (*cell).(*Term)
	if st.SVal() != 0 {
		return false
	}
	*cell = ex.tc.Const(int(st.w), ^uint64(0))
	return true
}

func (s *scheduler) spawn(ex *Exec, fn Value, args []Value) {
	s.spawnThread(&boundCall{fn: fn, args: args})
}

// boundCall is a function value with pre-bound arguments (for `go f(x)`)
type boundCall struct {
	fn   Value
	args []Value
}

func (s *scheduler) chanSend(ex *Exec, c *ChanV, v Value) {
	if c.cap > 0 && len(c.buf) >= c.cap {
		panic(pathEnd{"block", "send on full channel in concurrent mode"})
	}
	c.buf = append(c.buf, v)
}

func (s *scheduler) chanRecv(ex *Exec, c *ChanV, commaOk bool) Value {
	for len(c.buf) == 0 && !c.closed {
		me := s.cur
		next := s.pickRunnable(nil)
		if next == nil || next == me {
			panic(pathEnd{"block", "receive on empty channel in concurrent mode"})
		}
		s.wakeThread(next)
		s.waitTurn(me)
	}
	var v Value
	ok := true
	if len(c.buf) > 0 {
		v = c.buf[0]
		c.buf = c.buf[1:]
	} else {
		v = ex.zero(c.elemT)
		ok = false
	}
	if commaOk {
		return Tuple{v, ex.tc.Bool(ok)}
	}
	return v
}

func (s *scheduler) wakeAll() {}

var _ = fmt.Sprintf
