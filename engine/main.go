package main

// symgo: bounded symbolic execution of olric's real code (go/ssa) decided by an SMT solver.
//
//   symgo check  -prop C11 -tier quick       run all harnesses of a property, replay counterexamples, write evidence
//   symgo run    -pkg internal/kvstore -func VerifC11_Map [-bound steps=3]   run one harness (development)
//   symgo replay -prop C11 -file out/cex/C11/x.json                           replay a counterexample natively

import (
	"encoding/json"
	"flag"
	"fmt"
	"go/ast"
	"go/parser"
	"go/token"
	"os"
	"os/exec"
	"path/filepath"
	"regexp"
	"sort"
	"strconv"
	"strings"
	"time"

	"golang.org/x/tools/go/packages"
	"golang.org/x/tools/go/ssa"
	"golang.org/x/tools/go/ssa/ssautil"
)

const modulePath = "github.com/olric-data/olric"

type HarnessCfg struct {
	Pkg          string                      `json:"pkg"`  // relative to the repo root, e.g. internal/kvstore
	Func         string                      `json:"func"` // harness function name
	Bounds       map[string]map[string]int64 `json:"bounds"`
	MaxPaths     map[string]int              `json:"max_paths"`
	Replay       string                      `json:"replay"` // direct | none
	Tiers        []string                    `json:"tiers"`  // tiers in which the harness runs (default both)
	Unwind       int                         `json:"unwind"`
	Retries      int                         `json:"replay_retries"`
	Validate     *int                        `json:"validate"`
	AllowBlock   bool                        `json:"allow_block"`
	ReplayRounds int                         `json:"replay_rounds"`
	Timed        bool                        `json:"timed"` // the harness reads the clock / sleeps: natively its timing assumptions can fail under load
	About        string                      `json:"about"`
}

type PropCfg struct {
	Level       string       `json:"level"`
	Harnesses   []HarnessCfg `json:"harnesses"`
	Assumptions []string     `json:"assumptions"`
	Outside     []string     `json:"outside"`
}

type Config struct {
	Props map[string]*PropCfg `json:"props"`
}

var (
	verifDir = "/verif"
	repoDir  = "/repo"
)

func main() {
	if len(os.Args) < 2 {
		fmt.Fprintln(os.Stderr, "usage: symgo check|run|replay ...")
		os.Exit(2)
	}
	if v := os.Getenv("VERIF_DIR"); v != "" {
		verifDir = v
	}
	if v := os.Getenv("VERIF_REPO"); v != "" {
		repoDir = v
	}
	switch os.Args[1] {
	case "check":
		os.Exit(cmdCheck(os.Args[2:]))
	case "run":
		os.Exit(cmdRun(os.Args[2:]))
	case "replay":
		os.Exit(cmdReplay(os.Args[2:]))
	case "selftest":
		os.Exit(cmdSelftest(os.Args[2:]))
	}
	fmt.Fprintln(os.Stderr, "unknown command")
	os.Exit(2)
}

func loadConfig() *Config {
	b, err := os.ReadFile(filepath.Join(verifDir, "harness", "props.json"))
	if err != nil {
		fatal("read props.json: %v", err)
	}
	var c Config
	if err := json.Unmarshal(b, &c); err != nil {
		fatal("parse props.json: %v", err)
	}
	return &c
}

func fatal(f string, a ...interface{}) {
	fmt.Fprintf(os.Stderr, "symgo: "+f+"\n", a...)
	os.Exit(2)
}

// ---------------------------------------------------------------- overlay

type overlaySet struct {
	files   map[string][]byte // virtual path in /repo -> content (for go/packages)
	onDisk  map[string]string // virtual path -> real file (for go test -overlay)
	pkgDirs map[string]string // relative pkg dir -> package name
	genDir  string
}

var harnessName = regexp.MustCompile(`^VerifC[0-9]+_`)

var pkgClause = regexp.MustCompile(`(?m)^package\s+(\w+)`)

// buildOverlay maps /verif/harness/<pkgdir>/zz_verif_*.go into /repo/<pkgdir>/ and generates the vp support file.
func buildOverlay(withTests bool) *overlaySet {
	ov := &overlaySet{files: map[string][]byte{}, onDisk: map[string]string{}, pkgDirs: map[string]string{}}
	ov.genDir = filepath.Join(verifDir, "out", "tmp", fmt.Sprintf("gen-%d", os.Getpid()))
	os.MkdirAll(ov.genDir, 0o755)
	altModFile = prepareReplacedModules()
	root := filepath.Join(verifDir, "harness")
	tmpl, err := os.ReadFile(filepath.Join(root, "vp_native.go.tmpl"))
	if err != nil {
		fatal("read vp template: %v", err)
	}
	testTmpl, err := os.ReadFile(filepath.Join(root, "vp_replay_test.go.tmpl"))
	if err != nil {
		fatal("read replay template: %v", err)
	}
	harnessFuncs := map[string][]string{}
	filepath.Walk(root, func(p string, info os.FileInfo, err error) error {
		if err != nil || info.IsDir() {
			return nil
		}
		base := filepath.Base(p)
		if !strings.HasPrefix(base, "zz_verif_") || !strings.HasSuffix(base, ".go") {
			return nil
		}
		rel, _ := filepath.Rel(root, filepath.Dir(p))
		b, err := os.ReadFile(p)
		if strings.HasPrefix(rel, "_modcache/") {
			// helper added to a dependency: handled by prepareReplacedModules (module copy + -modfile replace)
			return nil
		}
		if err != nil {
			fatal("read %s: %v", p, err)
		}
		m := pkgClause.FindSubmatch(b)
		if m == nil {
			fatal("%s: no package clause", p)
		}
		pkgName := string(m[1])
		if strings.HasSuffix(base, "_test.go") {
			if !withTests {
				return nil
			}
		} else {
			ov.pkgDirs[rel] = pkgName
			// collect harness function names
			fset := token.NewFileSet()
			if f, err := parser.ParseFile(fset, p, b, 0); err == nil {
				for _, d := range f.Decls {
					fd, ok := d.(*ast.FuncDecl)
					if !ok || fd.Recv != nil || fd.Type.Params.NumFields() != 0 || fd.Type.Results.NumFields() != 0 {
						continue
					}
					if harnessName.MatchString(fd.Name.Name) {
						harnessFuncs[rel] = append(harnessFuncs[rel], fd.Name.Name)
					}
				}
			}
		}
		virt := filepath.Join(repoDir, rel, base)
		ov.files[virt] = b
		ov.onDisk[virt] = p
		return nil
	})
	for rel, pkgName := range ov.pkgDirs {
		dir := filepath.Join(ov.genDir, rel)
		os.MkdirAll(dir, 0o755)
		src := strings.ReplaceAll(string(tmpl), "PKGNAME", pkgName)
		real := filepath.Join(dir, "zz_verif_vp.go")
		os.WriteFile(real, []byte(src), 0o644)
		virt := filepath.Join(repoDir, rel, "zz_verif_vp.go")
		ov.files[virt] = []byte(src)
		ov.onDisk[virt] = real
		if withTests {
			fs := harnessFuncs[rel]
			sort.Strings(fs)
			var reg strings.Builder
			for _, f := range fs {
				fmt.Fprintf(&reg, "\t%q: %s,\n", f, f)
			}
			tsrc := strings.ReplaceAll(string(testTmpl), "PKGNAME", pkgName)
			tsrc = strings.ReplaceAll(tsrc, "//HARNESSES", reg.String())
			treal := filepath.Join(dir, "zz_verif_replay_test.go")
			os.WriteFile(treal, []byte(tsrc), 0o644)
			tvirt := filepath.Join(repoDir, rel, "zz_verif_replay_test.go")
			ov.onDisk[tvirt] = treal
		}
	}
	return ov
}

func (ov *overlaySet) cleanup() {
	os.RemoveAll(ov.genDir)
	if altModFile != "" {
		os.RemoveAll(filepath.Dir(altModFile))
	}
}

func (ov *overlaySet) writeOverlayJSON() string {
	m := map[string]map[string]string{"Replace": ov.onDisk}
	b, _ := json.MarshalIndent(m, "", " ")
	p := filepath.Join(ov.genDir, "overlay.json")
	os.WriteFile(p, b, 0o644)
	return p
}

var modCacheDir string

func goModCache() string {
	if modCacheDir == "" {
		out, err := exec.Command("go", "env", "GOMODCACHE").Output()
		if err != nil {
			fatal("go env GOMODCACHE: %v", err)
		}
		modCacheDir = strings.TrimSpace(string(out))
	}
	return modCacheDir
}

// prepareReplacedModules: helpers under harness/_modcache/<module>@<version>/ are added to a writable copy of that
// module (out/third_party/...), and an alternate go.mod (copy of /repo/go.mod plus replace directives) is generated;
// it is passed to every go command as -modfile. Nothing in /repo or in the module cache is touched.
func prepareReplacedModules() string {
	root := filepath.Join(verifDir, "harness", "_modcache")
	var replaces []string
	filepath.Walk(root, func(p string, info os.FileInfo, err error) error {
		if err != nil || info.IsDir() || !strings.HasSuffix(p, ".go") {
			return nil
		}
		rel, _ := filepath.Rel(root, filepath.Dir(p)) // github.com/hashicorp/memberlist@v0.5.3
		at := strings.LastIndex(rel, "@")
		if at < 0 {
			return nil
		}
		modPath := rel[:at]
		dst := filepath.Join(verifDir, "out", "third_party", rel)
		if _, err := os.Stat(filepath.Join(dst, "go.mod")); err != nil {
			os.MkdirAll(filepath.Dir(dst), 0o755)
			src := filepath.Join(goModCache(), rel)
			if out, err := exec.Command("cp", "-r", src, dst).CombinedOutput(); err != nil {
				fatal("copy module %s: %v %s", rel, err, out)
			}
			exec.Command("chmod", "-R", "u+w", dst).Run()
		}
		b, _ := os.ReadFile(p)
		os.WriteFile(filepath.Join(dst, filepath.Base(p)), b, 0o644)
		rep := fmt.Sprintf("replace %s => %s", modPath, dst)
		for _, r := range replaces {
			if r == rep {
				return nil
			}
		}
		replaces = append(replaces, rep)
		return nil
	})
	if len(replaces) == 0 {
		return ""
	}
	dir := filepath.Join(verifDir, "out", "tmp", fmt.Sprintf("mod-%d", os.Getpid()))
	os.MkdirAll(dir, 0o755)
	gm, err := os.ReadFile(filepath.Join(repoDir, "go.mod"))
	if err != nil {
		fatal("read go.mod: %v", err)
	}
	os.WriteFile(filepath.Join(dir, "go.mod"), []byte(string(gm)+"\n"+strings.Join(replaces, "\n")+"\n"), 0o644)
	if gs, err := os.ReadFile(filepath.Join(repoDir, "go.sum")); err == nil {
		os.WriteFile(filepath.Join(dir, "go.sum"), gs, 0o644)
	}
	return filepath.Join(dir, "go.mod")
}

var altModFile string

// ---------------------------------------------------------------- loading

func goEnv() []string {
	env := os.Environ()
	env = append(env, "GOFLAGS=-mod=mod", "GOPROXY=off", "GOSUMDB=off", "GOTOOLCHAIN=local")
	return env
}

func buildFlags() []string {
	fl := []string{"-tags=verif"}
	if altModFile != "" {
		fl = append(fl, "-modfile="+altModFile)
	}
	return fl
}

func loadEngine(ov *overlaySet, pkgDirs []string, opts Options) *Engine {
	t0 := time.Now()
	cfg := &packages.Config{
		Mode:       packages.NeedName | packages.NeedFiles | packages.NeedCompiledGoFiles | packages.NeedImports | packages.NeedDeps | packages.NeedTypes | packages.NeedSyntax | packages.NeedTypesInfo | packages.NeedTypesSizes | packages.NeedModule,
		Dir:        repoDir,
		Env:        goEnv(),
		BuildFlags: buildFlags(),
		Overlay:    ov.files,
	}
	var patterns []string
	for _, d := range pkgDirs {
		if d == "." || d == "" {
			patterns = append(patterns, modulePath)
		} else {
			patterns = append(patterns, modulePath+"/"+d)
		}
	}
	pkgs, err := packages.Load(cfg, patterns...)
	if err != nil {
		fatal("packages.Load: %v", err)
	}
	nerr := 0
	packages.Visit(pkgs, nil, func(p *packages.Package) {
		for _, e := range p.Errors {
			if strings.HasPrefix(p.PkgPath, modulePath) {
				fmt.Fprintf(os.Stderr, "load error: %s: %v\n", p.PkgPath, e)
				nerr++
			}
		}
	})
	if nerr > 0 {
		fatal("the harness does not type-check against the current tree (%d errors) — engine error, not a violation", nerr)
	}
	prog, _ := ssautil.AllPackages(pkgs, ssa.InstantiateGenerics)
	prog.Build()
	eng := &Engine{prog: prog, stubs: buildStubs(), pkgByPath: map[string]*ssa.Package{}, opts: opts}
	for _, p := range prog.AllPackages() {
		eng.pkgByPath[p.Pkg.Path()] = p
	}
	if os.Getenv("VERIF_VERBOSE") != "" {
		fmt.Fprintf(os.Stderr, "loaded %d packages in %.1fs\n", len(prog.AllPackages()), time.Since(t0).Seconds())
	}
	return eng
}

func (e *Engine) harnessFn(pkgDir, name string) *ssa.Function {
	path := modulePath
	if pkgDir != "." && pkgDir != "" {
		path += "/" + pkgDir
	}
	p := e.pkgByPath[path]
	if p == nil {
		fatal("package %s not loaded", path)
	}
	f := p.Func(name)
	if f == nil {
		fatal("harness %s.%s not found", path, name)
	}
	return f
}

func defaultOptions() Options {
	o := Options{SolverBin: "z3", TimeoutMs: 20000, UnwindLimit: 64, MaxSteps: 20000000, MaxConcVals: 64, Bounds: map[string]int64{}}
	if v := os.Getenv("VERIF_SOLVER"); v != "" {
		o.SolverBin = v
	}
	return o
}

// ---------------------------------------------------------------- run (development)

func cmdRun(args []string) int {
	fs := flag.NewFlagSet("run", flag.ExitOnError)
	pkg := fs.String("pkg", "", "package dir relative to repo")
	fn := fs.String("func", "", "harness function")
	workers := fs.Int("workers", 8, "workers")
	maxPaths := fs.Int("max-paths", 100000, "path budget")
	trace := fs.Bool("trace", false, "trace instructions")
	unwind := fs.Int("unwind", 64, "unwinding budget")
	slog := fs.String("solver-log", "", "directory for solver logs")
	var bounds multiFlag
	fs.Var(&bounds, "bound", "name=value")
	fs.Parse(args)
	opts := defaultOptions()
	opts.Trace = *trace
	opts.UnwindLimit = *unwind
	opts.SolverLogDir = *slog
	for _, b := range bounds {
		kv := strings.SplitN(b, "=", 2)
		v, _ := strconv.ParseInt(kv[1], 10, 64)
		opts.Bounds[kv[0]] = v
	}
	ov := buildOverlay(false)
	defer ov.cleanup()
	eng := loadEngine(ov, []string{*pkg}, opts)
	f := eng.harnessFn(*pkg, *fn)
	res := eng.Explore(f, *pkg+"."+*fn, *workers, *maxPaths, time.Now().Add(2*time.Hour), 2)
	printResult(res)
	return 0
}

type multiFlag []string

func (m *multiFlag) String() string     { return strings.Join(*m, ",") }
func (m *multiFlag) Set(s string) error { *m = append(*m, s); return nil }

func printResult(res *HarnessResult) {
	fmt.Printf("harness %s: paths=%d completed=%d ends=%v decisions=%d forced=%d steps=%d obligations=%d discharged=%d (trivial %d) unknown=%d queries=%d solver=%.1fs wall=%.1fs budget=%v maxdepth=%d slow(>1s)=%d maxquery=%.1fs\n",
		res.Harness, res.Paths, res.Completed, res.EndKinds, res.Decisions, res.Forced, res.Steps, res.Obligations, res.Discharged, res.Trivial, res.Unknown, res.Queries, res.SolverTime.Seconds(), res.Wall.Seconds(), res.Budget, res.MaxDepth, res.SlowQueries, res.MaxQuery.Seconds())
	fmt.Printf("  reached: %v\n", res.Reached)
	for msg, n := range res.EngineErrors {
		fmt.Printf("  ENGINE-ERROR ×%d: %s\n", n, msg)
	}
	for n, c := range res.Notes {
		fmt.Printf("  note ×%d: %s\n", c, n)
	}
	seen := map[string]int{}
	for _, v := range res.Violations {
		k := v.Kind + ":" + v.Label
		seen[k]++
		if seen[k] <= 3 {
			fmt.Printf("  violation %s label=%q shape=%s msg=%s\n", v.Kind, v.Label, v.Shape, v.Msg)
			var ins []string
			for i, in := range v.Inputs {
				if i >= 40 {
					ins = append(ins, "…")
					break
				}
				ins = append(ins, fmt.Sprintf("%s=%d", in.Name, in.Val))
			}
			fmt.Printf("     inputs: %s\n", strings.Join(ins, " "))
			for _, n := range v.Notes {
				fmt.Printf("     note: %s\n", n)
			}
		}
	}
	for k, n := range seen {
		fmt.Printf("  violations %s ×%d\n", k, n)
	}
}

// ---------------------------------------------------------------- check

type Evidence struct {
	PropertyID  string                 `json:"property_id"`
	Tier        string                 `json:"tier"`
	Seed        int                    `json:"seed"`
	Level       string                 `json:"level"`
	Coverage    map[string]interface{} `json:"coverage"`
	Assumptions []string               `json:"assumptions"`
	WallS       float64                `json:"wall_s"`
	Violations  int                    `json:"violations"`
}

type knownFinding struct {
	kind    string // known | fixed
	prop    string
	harness string
	label   string
	shape   string
	text    string
	used    bool
}

func loadKnown() []*knownFinding {
	b, err := os.ReadFile(filepath.Join(verifDir, "known-findings.txt"))
	if err != nil {
		return nil
	}
	var out []*knownFinding
	for _, line := range strings.Split(string(b), "\n") {
		line = strings.TrimSpace(line)
		if line == "" || strings.HasPrefix(line, "#") {
			continue
		}
		k := &knownFinding{}
		switch {
		case strings.HasPrefix(line, "known:"):
			k.kind = "known"
			line = strings.TrimSpace(line[6:])
		case strings.HasPrefix(line, "fixed:"):
			k.kind = "fixed"
			line = strings.TrimSpace(line[6:])
		default:
			continue
		}
		fields := strings.Fields(line)
		rest := []string{}
		for _, f := range fields {
			switch {
			case strings.HasPrefix(f, "property="):
				k.prop = f[9:]
			case strings.HasPrefix(f, "harness="):
				k.harness = f[8:]
			case strings.HasPrefix(f, "label="):
				k.label = f[6:]
			case strings.HasPrefix(f, "shape="):
				k.shape = f[6:]
			default:
				rest = append(rest, f)
			}
		}
		k.text = strings.Join(rest, " ")
		out = append(out, k)
	}
	return out
}

func matchKnown(ks []*knownFinding, prop string, v *Violation) *knownFinding {
	for _, k := range ks {
		if k.kind != "known" || k.prop != prop {
			continue
		}
		if k.harness != "" && !strings.HasSuffix(v.Harness, k.harness) {
			continue
		}
		if k.label != "" && k.label != v.Label {
			continue
		}
		if k.shape != "" && !strings.Contains(","+v.Shape+",", ","+k.shape+",") && !strings.HasPrefix(v.Shape, k.shape) {
			continue
		}
		return k
	}
	return nil
}

func cmdCheck(args []string) int {
	fs := flag.NewFlagSet("check", flag.ExitOnError)
	prop := fs.String("prop", "", "property id")
	tier := fs.String("tier", "quick", "quick|thorough")
	workers := fs.Int("workers", 8, "workers")
	only := fs.String("only", "", "run only harnesses whose name contains this")
	noReplay := fs.Bool("no-replay", false, "skip native replay (development)")
	fs.Parse(args)
	if t := os.Getenv("VERIF_TIER"); t != "" && *tier == "" {
		*tier = t
	}
	seed := 0
	if s := os.Getenv("VERIF_SEED"); s != "" {
		seed, _ = strconv.Atoi(s)
	}
	cfg := loadConfig()
	pc := cfg.Props[*prop]
	if pc == nil {
		fatal("property %s not configured", *prop)
	}
	t0 := time.Now()
	os.MkdirAll(filepath.Join(verifDir, "evidence"), 0o755)
	os.MkdirAll(filepath.Join(verifDir, "out", "cex", *prop), 0o755)

	ov := buildOverlay(true)
	defer ov.cleanup()
	var pkgDirs []string
	seenPkg := map[string]bool{}
	var hs []HarnessCfg
	for _, h := range pc.Harnesses {
		if len(h.Tiers) > 0 {
			ok := false
			for _, t := range h.Tiers {
				if t == *tier {
					ok = true
				}
			}
			if !ok {
				continue
			}
		}
		if *only != "" && !strings.Contains(h.Func, *only) {
			continue
		}
		hs = append(hs, h)
		if !seenPkg[h.Pkg] {
			seenPkg[h.Pkg] = true
			pkgDirs = append(pkgDirs, h.Pkg)
		}
	}
	if len(hs) == 0 {
		fatal("no harness selected for %s/%s", *prop, *tier)
	}
	opts := defaultOptions()
	eng := loadEngine(ov, pkgDirs, opts)
	known := loadKnown()

	var results []*HarnessResult
	exit := 0
	inconclusive := []string{}
	totalViol := 0
	validated := 0
	validationFail := 0
	var cexSeq int
	printedKnown := map[string]bool{}
	for _, h := range hs {
		o := opts
		o.Bounds = map[string]int64{}
		for k, v := range h.Bounds[*tier] {
			o.Bounds[k] = v
		}
		if h.Unwind > 0 {
			o.UnwindLimit = h.Unwind
		}
		eng.opts = o
		maxPaths := 200000
		if mp, ok := h.MaxPaths[*tier]; ok {
			maxPaths = mp
		}
		nVal := 2
		if h.Validate != nil {
			nVal = *h.Validate
		}
		if h.Replay == "none" {
			nVal = 0
		}
		nativeRounds = 1
		if h.ReplayRounds > 0 {
			nativeRounds = h.ReplayRounds
		}
		f := eng.harnessFn(h.Pkg, h.Func)
		name := h.Pkg + "." + h.Func
		res := eng.Explore(f, name, *workers, maxPaths, time.Now().Add(6*time.Hour), nVal)
		results = append(results, res)
		if os.Getenv("VERIF_VERBOSE") != "" {
			printResult(res)
		}
		// vacuity / completeness
		if len(res.EngineErrors) > 0 {
			for msg, n := range res.EngineErrors {
				inconclusive = append(inconclusive, fmt.Sprintf("%s: engine error ×%d: %s", name, n, firstLine(msg)))
			}
		}
		if res.Budget {
			inconclusive = append(inconclusive, fmt.Sprintf("%s: path budget exhausted after %d paths (bound not explored completely)", name, res.Paths))
		}
		if res.Unknown > 0 {
			inconclusive = append(inconclusive, fmt.Sprintf("%s: %d solver answers were unknown", name, res.Unknown))
		}
		for k, n := range res.EndKinds {
			if k == "steps" || (k == "block" && !h.AllowBlock) {
				inconclusive = append(inconclusive, fmt.Sprintf("%s: %d paths ended with %s", name, n, k))
			}
		}
		if res.Reached["end"] == 0 && len(res.Violations) == 0 {
			inconclusive = append(inconclusive, fmt.Sprintf("%s: vacuity witness vpReach(\"end\") never reached", name))
		}
		// violations: replay, classify
		confirmedKeys := map[string]bool{}
		attempts := map[string]int{}
		labelCount := map[string]int{}
		for i := range res.Violations {
			labelCount[res.Violations[i].Kind+"|"+res.Violations[i].Label]++
		}
		for i := range res.Violations {
			v := &res.Violations[i]
			key := v.Kind + "|" + v.Label
			if confirmedKeys[key] {
				continue
			}
			if attempts[key] >= 3 {
				continue
			}
			if k := matchKnown(known, *prop, v); k != nil {
				line := fmt.Sprintf("KNOWN-FINDING: property=%s %s (harness=%s label=%s)", *prop, k.text, h.Func, v.Label)
				if !printedKnown[line] {
					printedKnown[line] = true
					fmt.Println(line)
				}
				continue
			}
			cexSeq++
			cexPath := filepath.Join(verifDir, "out", "cex", *prop, fmt.Sprintf("%s-%s-%d.json", h.Func, sanitizeFile(v.Label), cexSeq))
			writeCex(cexPath, *prop, h, *tier, v, o.Bounds)
			if h.Replay == "none" || *noReplay {
				// cannot replay natively: report as unconfirmed unless harness declares solver-only
				fmt.Printf("UNCONFIRMED property=%s harness=%s label=%s kind=%s (no native replay for this harness) cex=%s\n", *prop, h.Func, v.Label, v.Kind, cexPath)
				inconclusive = append(inconclusive, fmt.Sprintf("%s: unreplayed counterexample %s", name, v.Label))
				confirmedKeys[key] = true
				continue
			}
			retries := h.Retries
			if retries == 0 {
				retries = 1
			}
			attempts[key]++
			ok, out := replayNative(ov, h, cexPath, v, retries)
			if ok {
				confirmedKeys[key] = true
				totalViol++
				fmt.Printf("VIOLATION property=%s replay=%s\n", *prop, cexPath)
				fmt.Printf("  harness=%s kind=%s label=%s shape=%s %s (%d counterexamples with this label recorded)\n", h.Func, v.Kind, v.Label, v.Shape, v.Msg, labelCount[key])
				exit = 1
			} else {
				fmt.Printf("UNCONFIRMED property=%s harness=%s label=%s kind=%s cex=%s\n%s\n", *prop, h.Func, v.Label, v.Kind, cexPath, indent(lastLines(out, 15)))
				inconclusive = append(inconclusive, fmt.Sprintf("%s: counterexample for %s did not reproduce natively", name, v.Label))
			}
		}
		// translator validation on completed paths
		if h.Replay != "none" && !*noReplay {
			for i := range res.Validate {
				s := &res.Validate[i]
				p := filepath.Join(ov.genDir, fmt.Sprintf("val-%s-%d.json", h.Func, i))
				v := &Violation{Harness: name, Label: "", Kind: "validate", Inputs: s.Inputs}
				writeCex(p, *prop, h, *tier, v, o.Bounds)
				ok, out := validateNative(ov, h, p, s)
				if ok && strings.Contains(out, "VP-SKIPPED-TIMING") {
					fmt.Printf("NOTE harness=%s: a validation sample was skipped (native timing outside the assumed envelope on every attempt)\n", h.Func)
				} else if ok {
					validated++
				} else {
					validationFail++
					fmt.Printf("VALIDATION-MISMATCH harness=%s: interpreter and native code disagree on a completed path\n%s\n", h.Func, indent(lastLines(out, 15)))
					inconclusive = append(inconclusive, fmt.Sprintf("%s: translator validation mismatch", name))
				}
			}
		}
	}
	writeEvidence(*prop, *tier, seed, pc, hs, results, time.Since(t0), totalViol, validated, inconclusive)
	if exit == 1 {
		return 1
	}
	if len(inconclusive) > 0 {
		for _, s := range inconclusive {
			fmt.Printf("INCONCLUSIVE property=%s %s\n", *prop, s)
		}
		return 2
	}
	fmt.Printf("OK property=%s tier=%s harnesses=%d paths=%d obligations=%d wall=%.1fs\n", *prop, *tier, len(results), sumPaths(results), sumObl(results), time.Since(t0).Seconds())
	return 0
}

func sumPaths(rs []*HarnessResult) int {
	n := 0
	for _, r := range rs {
		n += r.Paths
	}
	return n
}
func sumObl(rs []*HarnessResult) int {
	n := 0
	for _, r := range rs {
		n += r.Obligations
	}
	return n
}

func firstLine(s string) string {
	if i := strings.IndexByte(s, '\n'); i >= 0 {
		return s[:i]
	}
	return s
}

func lastLines(s string, n int) string {
	ls := strings.Split(strings.TrimRight(s, "\n"), "\n")
	if len(ls) > n {
		ls = ls[len(ls)-n:]
	}
	return strings.Join(ls, "\n")
}

func indent(s string) string { return "    " + strings.ReplaceAll(s, "\n", "\n    ") }

func sanitizeFile(s string) string {
	var sb strings.Builder
	for _, c := range s {
		if c >= 'a' && c <= 'z' || c >= 'A' && c <= 'Z' || c >= '0' && c <= '9' || c == '-' || c == '_' {
			sb.WriteRune(c)
		} else {
			sb.WriteRune('_')
		}
	}
	return sb.String()
}

type cexFile struct {
	Property string           `json:"property"`
	Pkg      string           `json:"pkg"`
	Harness  string           `json:"harness"`
	Tier     string           `json:"tier"`
	Kind     string           `json:"kind"`
	Label    string           `json:"label"`
	Msg      string           `json:"msg,omitempty"`
	Shape    string           `json:"shape"`
	Bounds   map[string]int64 `json:"bounds"`
	Inputs   []InputRec       `json:"inputs"`
	Notes    []string         `json:"notes,omitempty"`
}

func writeCex(path, prop string, h HarnessCfg, tier string, v *Violation, bounds map[string]int64) {
	c := cexFile{Property: prop, Pkg: h.Pkg, Harness: h.Func, Tier: tier, Kind: v.Kind, Label: v.Label, Msg: v.Msg, Shape: v.Shape, Bounds: bounds, Inputs: v.Inputs, Notes: v.Notes}
	b, _ := json.MarshalIndent(c, "", " ")
	os.WriteFile(path, b, 0o644)
}

// replayNative runs the harness natively on the counterexample vector.
func replayNative(ov *overlaySet, h HarnessCfg, cexPath string, v *Violation, retries int) (bool, string) {
	var out string
	for i := 0; i < retries; i++ {
		to := 20 * time.Second
		if v.Kind == "unwind" || v.Kind == "nonterm" || v.Kind == "deadlock" {
			to = 8 * time.Second
			if i > 0 {
				break
			}
		}
		o, timedOut := runNative(ov, h.Pkg, cexPath, to)
		out = o
		switch v.Kind {
		case "assert":
			if strings.Contains(o, "VP-ASSERT-FAILED "+v.Label+"\n") || strings.Contains(o, "VP-ASSERT-FAILED "+v.Label+" ") {
				return true, o
			}
		case "panic":
			if strings.Contains(o, "VP-PANIC") {
				return true, o
			}
			// the panic was raised in a goroutine the code under test started (a connection's command loop): it
			// cannot be recovered by the harness and takes the test process down - which is the member crashing
			if strings.Contains(o, "\npanic: ") && strings.Contains(o, "[running]:") && !strings.Contains(o, "test timed out") {
				return true, o
			}
		case "nonterm", "deadlock", "unwind":
			if timedOut || strings.Contains(o, "test timed out") || strings.Contains(o, "all goroutines are asleep") || strings.Contains(o, "out of memory") || strings.Contains(o, "cannot allocate memory") {
				return true, o
			}
		}
	}
	return false, out
}

func validateNative(ov *overlaySet, h HarnessCfg, cexPath string, s *PathSample) (bool, string) {
	retries := h.Retries
	if retries == 0 {
		retries = 1
	}
	if h.Timed && retries < 4 {
		retries = 4
	}
	var out string
	timingOnly := h.Timed
	for i := 0; i < retries; i++ {
		o, _ := runNative(ov, h.Pkg, cexPath, 60*time.Second)
		out = o
		if !strings.Contains(o, "VP-RESULT ok") {
			if !strings.Contains(o, "VP-ABORT assumption violated natively") {
				timingOnly = false
			}
			continue
		}
		timingOnly = false
		// compare observations
		var nat []string
		for _, l := range strings.Split(o, "\n") {
			if strings.HasPrefix(l, "VP-OBS ") {
				nat = append(nat, strings.TrimSpace(l[7:]))
			}
		}
		if s.obsOrder == nil {
			return true, o
		}
		if len(nat) != len(s.obsOrder) {
			out = o + fmt.Sprintf("\nobservation count differs: native %d engine %d", len(nat), len(s.obsOrder))
			continue
		}
		same := true
		for j, ob := range s.obsOrder {
			want := fmt.Sprintf("%s=%d", ob.Name, ob.Val)
			if nat[j] != want {
				same = false
				out = o + fmt.Sprintf("\nobservation %d differs: native %s engine %s", j, nat[j], want)
				break
			}
		}
		if same {
			return true, o
		}
	}
	if timingOnly {
		// every native attempt left the timing envelope the harness assumes (operations kept a margin away from
		// deadlines): the sample says nothing about the translator; it is skipped, not counted as validated
		return true, out + "\nVP-SKIPPED-TIMING"
	}
	return false, out
}

var nativeBuilt = map[string]string{}

// runNative builds (once per package) the package's test binary with the overlay and runs TestVerifReplay.
var nativeRounds = 1

func runNative(ov *overlaySet, pkgDir, cexPath string, timeout time.Duration) (string, bool) {
	bin, ok := nativeBuilt[pkgDir]
	if !ok {
		ovj := ov.writeOverlayJSON()
		bin = filepath.Join(ov.genDir, "replay-"+sanitizeFile(pkgDir)+".test")
		targs := []string{"test", "-c", "-tags", "verif", "-vet=off", "-overlay", ovj, "-o", bin}
		if altModFile != "" {
			targs = append(targs, "-modfile="+altModFile)
		}
		targs = append(targs, "./"+pkgDir)
		cmd := exec.Command("go", targs...)
		cmd.Dir = repoDir
		cmd.Env = goEnv()
		out, err := cmd.CombinedOutput()
		if err != nil {
			nativeBuilt[pkgDir] = ""
			fmt.Fprintf(os.Stderr, "native build of %s failed: %v\n%s\n", pkgDir, err, lastLines(string(out), 30))
			return "native build failed: " + err.Error() + "\n" + string(out), false
		}
		nativeBuilt[pkgDir] = bin
	}
	if bin == "" {
		return "native build failed earlier", false
	}
	cmd := exec.Command("/bin/sh", "-c", fmt.Sprintf("ulimit -v 8000000; exec timeout -s KILL %d %s -test.run '^TestVerifReplay$' -test.v -test.timeout %ds", int(timeout.Seconds())+5, bin, int(timeout.Seconds())))
	cmd.Dir = filepath.Join(repoDir, pkgDir)
	cmd.Env = append(goEnv(), "VERIF_REPLAY="+cexPath, fmt.Sprintf("VERIF_REPLAY_ROUNDS=%d", nativeRounds))
	out, err := cmd.CombinedOutput()
	timedOut := false
	if err != nil {
		if ee, ok := err.(*exec.ExitError); ok && (ee.ExitCode() == 137 || ee.ExitCode() == -1) {
			timedOut = true
		}
	}
	return string(out), timedOut
}

func cmdReplay(args []string) int {
	fs := flag.NewFlagSet("replay", flag.ExitOnError)
	file := fs.String("file", "", "counterexample file")
	fs.Parse(args)
	b, err := os.ReadFile(*file)
	if err != nil {
		fatal("read %s: %v", *file, err)
	}
	var c cexFile
	if err := json.Unmarshal(b, &c); err != nil {
		fatal("parse %s: %v", *file, err)
	}
	ov := buildOverlay(true)
	defer ov.cleanup()
	abs, _ := filepath.Abs(*file)
	v := &Violation{Kind: c.Kind, Label: c.Label}
	ok, out := replayNative(ov, HarnessCfg{Pkg: c.Pkg, Func: c.Harness}, abs, v, 5)
	fmt.Println(out)
	if ok {
		fmt.Printf("VIOLATION property=%s replay=%s\n", c.Property, abs)
		return 1
	}
	fmt.Println("counterexample did not reproduce")
	return 0
}

// ---------------------------------------------------------------- evidence

func writeEvidence(prop, tier string, seed int, pc *PropCfg, hs []HarnessCfg, results []*HarnessResult, wall time.Duration, viol, validated int, inconclusive []string) {
	cov := map[string]interface{}{}
	paths, decisions, obl, dis, queries, unknown := 0, 0, 0, 0, 0, 0
	var solverT time.Duration
	funcs := map[string]bool{}
	stubs := map[string]int{}
	var samples []interface{}
	var perHarness []interface{}
	shapes := 0
	for i, r := range results {
		paths += r.Paths
		decisions += r.Decisions + r.Forced
		obl += r.Obligations
		dis += r.Discharged
		queries += r.Queries
		unknown += r.Unknown
		solverT += r.SolverTime
		shapes += len(r.Shapes)
		for f := range r.Funcs {
			funcs[f] = true
		}
		for s, n := range r.Stubs {
			stubs[s] += n
		}
		for _, s := range r.Samples {
			if len(samples) < 12 {
				samples = append(samples, s)
			}
		}
		perHarness = append(perHarness, map[string]interface{}{
			"harness": r.Harness, "about": hs[i].About, "bounds": hs[i].Bounds[tier], "paths": r.Paths, "completed_paths": r.Completed,
			"path_ends": r.EndKinds, "decisions": r.Decisions, "forced_branches": r.Forced, "ssa_instructions_executed": r.Steps,
			"obligations": r.Obligations, "discharged": r.Discharged, "trivially_true": r.Trivial, "solver_unknown": r.Unknown,
			"solver_queries": r.Queries, "solver_s": round2(r.SolverTime.Seconds()), "wall_s": round2(r.Wall.Seconds()),
			"reached": r.Reached, "distinct_script_shapes": len(r.Shapes), "max_decision_depth": r.MaxDepth,
			"violations_found": len(r.Violations), "budget_exhausted": r.Budget, "unwinding_failures": r.UnwindFails,
			"notes": sortedCounts(r.Notes),
		})
	}
	var olricFuncs []string
	nDep := 0
	for f := range funcs {
		if strings.Contains(f, modulePath) && !strings.Contains(f, ".Verif") && !strings.Contains(f, ".vp") {
			olricFuncs = append(olricFuncs, strings.ReplaceAll(f, modulePath, "olric"))
		} else {
			nDep++
		}
	}
	sort.Strings(olricFuncs)
	var stubList []string
	for s := range stubs {
		stubList = append(stubList, s)
	}
	sort.Strings(stubList)
	if paths < 1 {
		paths = 1
	}
	if decisions < 1 {
		decisions = 1
	}
	if len(samples) == 0 {
		samples = append(samples, "no completed path")
	}
	cov["states"] = paths
	cov["transitions"] = decisions
	cov["traces_validated_against_impl"] = validated
	cov["samples"] = samples
	cov["obligations"] = obl
	cov["discharged"] = dis
	cov["solver_queries"] = queries
	cov["solver_unknown"] = unknown
	cov["solver_s"] = round2(solverT.Seconds())
	cov["solver"] = defaultOptions().SolverBin
	cov["functions_encoded"] = olricFuncs
	cov["dependency_functions_interpreted"] = nDep
	cov["stubs_hit"] = stubList
	cov["harnesses"] = perHarness
	cov["distinct_script_shapes"] = shapes
	cov["exhaustive"] = len(inconclusive) == 0
	cov["inconclusive"] = inconclusive
	cov["outside_the_bound"] = pc.Outside
	cov["rule"] = "states = path prefixes executed from the harness entry (each a distinct feasible decision vector, decided by the solver); transitions = decision points taken; every state covers all input values satisfying its path condition"
	level := pc.Level
	if level == "" {
		level = "model_checking"
	}
	assumptions := append([]string{}, pc.Assumptions...)
	assumptions = append(assumptions,
		"the Go SSA form (x/tools v0.29.0) of /repo's working tree is the semantics of the code; the symgo interpreter is validated by its conformance suite and by native replay of sampled paths",
		"pointers, interface dynamic types and slice offsets are concrete; byte lengths are case-split over the stated sets",
		"environment stubs listed under stubs_hit behave per their documented contract",
	)
	ev := Evidence{PropertyID: prop, Tier: tier, Seed: seed, Level: level, Coverage: cov, Assumptions: assumptions, WallS: round2(wall.Seconds()), Violations: viol}
	b, _ := json.MarshalIndent(ev, "", " ")
	os.WriteFile(filepath.Join(verifDir, "evidence", prop+".json"), b, 0o644)
}

func round2(f float64) float64 { return float64(int(f*100)) / 100 }
