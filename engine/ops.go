package main

import (
	"fmt"
	"go/token"
	"go/types"

	"golang.org/x/tools/go/ssa"
)

// ---------------------------------------------------------------- unary

func (ex *Exec) unop(in *ssa.UnOp, x Value) Value {
	tc := ex.tc
	switch in.Op {
	case token.MUL: // load
		p, _ := x.(*Value)
		if p == nil {
			ex.throw("invalid memory address or nil pointer dereference")
		}
		v := copyVal(*p)
		// unsafe string<->[]byte reinterpretation (util.BytesToString, partitions.HKey): same bytes
		switch vv := v.(type) {
		case *StrV:
			if isByteSliceType(in.Type()) {
				r := ex.mkByteSlice(vv.b)
				r.num = vv.num
				return r
			}
		case *SliceV:
			if b, ok := in.Type().Underlying().(*types.Basic); ok && b.Info()&types.IsString != 0 {
				if vv.isNil() {
					return ex.emptyStr
				}
				h := *vv
				return &StrV{b: ex.bytesOf(vv), num: vv.num, src: &h}
			}
		case StructV:
			// StringToBytes: *(*[]byte)(unsafe.Pointer(&struct{string; Cap int}{s, len(s)}))
			if isByteSliceType(in.Type()) && len(vv) == 2 {
				if sv, ok := vv[0].(*StrV); ok {
					return ex.mkByteSlice(sv.b)
				}
			}
		}
		return v
	case token.ARROW:
		c, _ := x.(*ChanV)
		return ex.chanRecv(c, in.CommaOk)
	case token.NOT:
		return tc.Not(x.(*Term))
	case token.SUB:
		t := x.(*Term)
		if t.IsFloat() {
			return tc.FNeg(t)
		}
		return tc.Neg(t)
	case token.XOR:
		return tc.BvNot(x.(*Term))
	}
	panic(engineErr("unop %s unsupported", in.Op))
}

// ---------------------------------------------------------------- binary

func (ex *Exec) binop(op token.Token, t types.Type, x, y Value) Value {
	tc := ex.tc
	switch op {
	case token.EQL:
		return ex.equal(t, x, y)
	case token.NEQ:
		return tc.Not(ex.equal(t, x, y))
	}
	switch xv := x.(type) {
	case *StrV:
		yv := y.(*StrV)
		switch op {
		case token.ADD:
			if len(xv.b) == 0 {
				return yv
			}
			if len(yv.b) == 0 {
				return xv
			}
			b := make([]*Term, 0, len(xv.b)+len(yv.b))
			b = append(b, xv.b...)
			b = append(b, yv.b...)
			return &StrV{b: b}
		case token.LSS:
			return ex.strLess(xv, yv, false)
		case token.LEQ:
			return ex.strLess(xv, yv, true)
		case token.GTR:
			return ex.strLess(yv, xv, false)
		case token.GEQ:
			return ex.strLess(yv, xv, true)
		}
		panic(engineErr("string binop %s", op))
	case *Term:
		yv := y.(*Term)
		if xv.IsFloat() {
			switch op {
			case token.ADD:
				return tc.FBin(OFAdd, xv, yv)
			case token.SUB:
				return tc.FBin(OFSub, xv, yv)
			case token.MUL:
				return tc.FBin(OFMul, xv, yv)
			case token.QUO:
				return tc.FBin(OFDiv, xv, yv)
			case token.LSS:
				return tc.FCmp(OFLt, xv, yv)
			case token.LEQ:
				return tc.FCmp(OFLe, xv, yv)
			case token.GTR:
				return tc.FCmp(OFLt, yv, xv)
			case token.GEQ:
				return tc.FCmp(OFLe, yv, xv)
			}
			panic(engineErr("float binop %s", op))
		}
		signed := isSigned(t)
		switch op {
		case token.ADD:
			return tc.Bin(OAdd, xv, yv)
		case token.SUB:
			return tc.Bin(OSub, xv, yv)
		case token.MUL:
			return tc.Bin(OMul, xv, yv)
		case token.QUO, token.REM:
			if ex.branch(tc.Eq(yv, tc.Const(int(yv.w), 0))) {
				ex.throw("integer divide by zero")
			}
			if op == token.QUO {
				if signed {
					if yv.IsConst() && yv.w == 64 && yv.SVal() > 1 {
						// exact multiples cancel syntactically (time arithmetic ns<->ms); see divConst
						return ex.divConst(xv, yv.SVal())
					}
					return tc.Bin(OSDiv, xv, yv)
				}
				return tc.Bin(OUDiv, xv, yv)
			}
			if signed {
				return tc.Bin(OSRem, xv, yv)
			}
			return tc.Bin(OURem, xv, yv)
		case token.AND:
			if xv.w == 0 {
				return tc.And(xv, yv)
			}
			return tc.Bin(OAnd, xv, yv)
		case token.OR:
			if xv.w == 0 {
				return tc.Or(xv, yv)
			}
			return tc.Bin(OOr, xv, yv)
		case token.XOR:
			return tc.Bin(OXor, xv, yv)
		case token.AND_NOT:
			return tc.Bin(OAnd, xv, tc.BvNot(yv))
		case token.SHL, token.SHR:
			return ex.shift(op, signed, xv, yv)
		case token.LSS:
			if signed {
				return tc.Cmp(OSlt, xv, yv)
			}
			return tc.Cmp(OUlt, xv, yv)
		case token.LEQ:
			if signed {
				return tc.Cmp(OSle, xv, yv)
			}
			return tc.Cmp(OUle, xv, yv)
		case token.GTR:
			if signed {
				return tc.Cmp(OSlt, yv, xv)
			}
			return tc.Cmp(OUlt, yv, xv)
		case token.GEQ:
			if signed {
				return tc.Cmp(OSle, yv, xv)
			}
			return tc.Cmp(OUle, yv, xv)
		}
	}
	panic(engineErr("binop %s on %T", op, x))
}

// shift: the shift count y is unsigned (or checked non-negative by the compiler-inserted test in SSA? no:
// go/ssa leaves negative-count panics implicit), any width.
func (ex *Exec) shift(op token.Token, signed bool, x, y *Term) *Term {
	tc := ex.tc
	w := int(x.w)
	// normalise y to width w
	var yy *Term
	var tooBig *Term = tc.False
	if int(y.w) > w {
		tooBig = tc.Cmp(OUle, tc.Const(int(y.w), uint64(w)), y)
		yy = tc.Extract(w-1, 0, y)
	} else {
		yy = tc.Zext(w, y)
	}
	var r *Term
	switch {
	case op == token.SHL:
		r = tc.Bin(OShl, x, yy)
		return tc.Ite(tooBig, tc.Const(w, 0), r)
	case signed:
		r = tc.Bin(OAShr, x, yy)
		return tc.Ite(tooBig, tc.Bin(OAShr, x, tc.Const(w, uint64(w-1))), r)
	default:
		r = tc.Bin(OLShr, x, yy)
		return tc.Ite(tooBig, tc.Const(w, 0), r)
	}
}

func (ex *Exec) strLess(x, y *StrV, orEq bool) *Term {
	tc := ex.tc
	// lexicographic: build from the end
	n := len(x.b)
	if len(y.b) < n {
		n = len(y.b)
	}
	var res *Term
	if orEq {
		res = tc.Bool(len(x.b) <= len(y.b))
	} else {
		res = tc.Bool(len(x.b) < len(y.b))
	}
	for i := n - 1; i >= 0; i-- {
		res = tc.Ite(tc.Eq(x.b[i], y.b[i]), res, tc.Cmp(OUlt, x.b[i], y.b[i]))
	}
	return res
}

func (ex *Exec) strEq(x, y *StrV) *Term {
	if len(x.b) != len(y.b) {
		return ex.tc.False
	}
	r := ex.tc.True
	for i := range x.b {
		r = ex.tc.And(r, ex.tc.Eq(x.b[i], y.b[i]))
		if r == ex.tc.False {
			return r
		}
	}
	return r
}

// equal builds the Bool term for x == y of static type t.
func (ex *Exec) equal(t types.Type, x, y Value) *Term {
	tc := ex.tc
	switch xv := x.(type) {
	case *Term:
		return tc.Eq(xv, y.(*Term))
	case *StrV:
		return ex.strEq(xv, y.(*StrV))
	case *Value:
		yv, _ := y.(*Value)
		return tc.Bool(xv == yv)
	case nil:
		switch yv := y.(type) {
		case nil:
			return tc.True
		case *Closure:
			return tc.Bool(yv == nil)
		case *ssa.Function:
			return tc.Bool(yv == nil)
		case IfaceV:
			return tc.Bool(yv.t == nil)
		}
		return tc.Bool(isNilValue(y))
	case IfaceV:
		yv, ok := y.(IfaceV)
		if !ok {
			return tc.Bool(xv.t == nil && isNilValue(y))
		}
		if xv.t == nil || yv.t == nil {
			return tc.Bool(xv.t == nil && yv.t == nil)
		}
		if !types.Identical(xv.t, yv.t) {
			return tc.False
		}
		return ex.equal(xv.t, xv.v, yv.v)
	case StructV:
		yv := y.(StructV)
		r := tc.True
		var st *types.Struct
		if t != nil {
			st, _ = t.Underlying().(*types.Struct)
		}
		for i := range xv {
			var ft types.Type
			if st != nil {
				ft = st.Field(i).Type()
			}
			r = tc.And(r, ex.equal(ft, xv[i], yv[i]))
		}
		return r
	case ArrV:
		yv := y.(ArrV)
		r := tc.True
		for i := range xv {
			r = tc.And(r, ex.equal(nil, xv[i], yv[i]))
		}
		return r
	case *SliceV:
		// only comparison with nil is legal
		ys, _ := y.(*SliceV)
		if xv.isNil() || ys.isNil() {
			return tc.Bool(xv.isNil() && ys.isNil())
		}
		panic(engineErr("slice comparison"))
	case *MapV:
		ym, _ := y.(*MapV)
		return tc.Bool(xv == ym)
	case *ChanV:
		yc, _ := y.(*ChanV)
		return tc.Bool(xv == yc)
	case *Closure:
		if y == nil {
			return tc.Bool(xv == nil)
		}
		yc, _ := y.(*Closure)
		return tc.Bool(xv == yc)
	case *ssa.Function:
		if y == nil {
			return tc.Bool(xv == nil)
		}
		yf, _ := y.(*ssa.Function)
		return tc.Bool(xv == yf)
	case UnsafePtr:
		yu := y.(UnsafePtr)
		return ex.equal(nil, xv.p, yu.p)
	case *Opaque:
		yo, _ := y.(*Opaque)
		return tc.Bool(xv == yo)
	}
	panic(engineErr("equal: unsupported %T", x))
}

func isNilValue(v Value) bool {
	switch v := v.(type) {
	case nil:
		return true
	case *Value:
		return v == nil
	case *SliceV:
		return v.isNil()
	case *MapV:
		return v == nil
	case *ChanV:
		return v == nil
	case *Closure:
		return v == nil
	case *ssa.Function:
		return v == nil
	case IfaceV:
		return v.t == nil
	case UnsafePtr:
		return isNilValue(v.p)
	}
	return false
}

// ---------------------------------------------------------------- conversions

func (ex *Exec) conv(dst, src types.Type, x Value) Value {
	tc := ex.tc
	ud := dst.Underlying()
	us := src.Underlying()
	switch us := us.(type) {
	case *types.Pointer:
		switch ud := ud.(type) {
		case *types.Basic:
			if ud.Kind() == types.UnsafePointer {
				return UnsafePtr{x}
			}
		case *types.Pointer:
			return x
		}
	case *types.Slice:
		// []byte / []rune -> string
		if b, ok := ud.(*types.Basic); ok && b.Info()&types.IsString != 0 {
			s, _ := x.(*SliceV)
			if s.isNil() {
				return ex.emptyStr
			}
			if eb, ok := us.Elem().Underlying().(*types.Basic); ok && eb.Kind() == types.Uint8 {
				bs := ex.bytesOf(s)
				return &StrV{b: bs, num: s.num}
			}
			panic(engineErr("[]rune -> string unsupported"))
		}
		if _, ok := ud.(*types.Slice); ok {
			return x
		}
		if _, ok := ud.(*types.Array); ok { // slice to array conversion
			s := x.(*SliceV)
			n := ud.(*types.Array).Len()
			if ex.sliceLen(s) < n {
				ex.throw("cannot convert slice to array: length too short")
			}
			a := make(ArrV, n)
			for i := int64(0); i < n; i++ {
				a[i] = copyVal(*s.elem(i))
			}
			return a
		}
	case *types.Basic:
		switch {
		case us.Kind() == types.UnsafePointer:
			if _, ok := ud.(*types.Pointer); ok {
				u := x.(UnsafePtr)
				if u.p == nil {
					return (*Value)(nil)
				}
				return u.p
			}
			if b, ok := ud.(*types.Basic); ok && b.Kind() == types.UnsafePointer {
				return x
			}
			if b, ok := ud.(*types.Basic); ok && b.Kind() == types.Uintptr {
				panic(engineErr("unsafe.Pointer -> uintptr unsupported"))
			}
		case us.Info()&types.IsString != 0:
			s := x.(*StrV)
			if sl, ok := ud.(*types.Slice); ok {
				if eb, ok := sl.Elem().Underlying().(*types.Basic); ok && eb.Kind() == types.Uint8 {
					r := ex.mkByteSlice(s.b)
					r.num = s.num
					return r
				}
				panic(engineErr("string -> []rune unsupported"))
			}
			if b, ok := ud.(*types.Basic); ok && b.Info()&types.IsString != 0 {
				return x
			}
		case us.Info()&types.IsInteger != 0:
			t := x.(*Term)
			if b, ok := ud.(*types.Basic); ok {
				switch {
				case b.Info()&types.IsInteger != 0:
					w := basicWidth(b)
					if w == int(t.w) {
						return t
					}
					if w < int(t.w) {
						return tc.Extract(w-1, 0, t)
					}
					if isSigned(us) {
						return tc.Sext(w, t)
					}
					return tc.Zext(w, t)
				case b.Info()&types.IsFloat != 0:
					return tc.FFromInt(basicWidth(b), t, isSigned(us))
				case b.Info()&types.IsString != 0:
					// string(rune)
					if t.IsConst() {
						return ex.mkStr(string(rune(t.SVal())))
					}
					panic(engineErr("string(symbolic rune) unsupported"))
				case b.Kind() == types.UnsafePointer:
					panic(engineErr("uintptr -> unsafe.Pointer unsupported"))
				}
			}
		case us.Info()&types.IsFloat != 0:
			t := x.(*Term)
			if b, ok := ud.(*types.Basic); ok {
				switch {
				case b.Info()&types.IsFloat != 0:
					return tc.FToF(basicWidth(b), t)
				case b.Info()&types.IsInteger != 0:
					return tc.FToInt(basicWidth(b), t, isSigned(b))
				}
			}
		case us.Info()&types.IsBoolean != 0:
			return x
		}
	case *types.Struct, *types.Array, *types.Map, *types.Chan, *types.Signature, *types.Interface:
		return x
	}
	if types.Identical(ud, src.Underlying()) {
		return x
	}
	panic(engineErr("conv: %s -> %s unsupported", src, dst))
}

// ---------------------------------------------------------------- builtins

func (ex *Exec) callBuiltin(caller *frame, fn *ssa.Builtin, args []Value) Value {
	tc := ex.tc
	switch fn.Name() {
	case "len":
		switch x := args[0].(type) {
		case *StrV:
			return ex.i64(int64(len(x.b)))
		case *SliceV:
			if x.isNil() {
				return ex.i64(0)
			}
			return x.len
		case ArrV:
			return ex.i64(int64(len(x)))
		case *Value:
			if x == nil {
				panic(engineErr("len of nil array pointer"))
			}
			return ex.i64(int64(len((*x).(ArrV))))
		case *MapV:
			if x == nil {
				return ex.i64(0)
			}
			return ex.i64(int64(ex.mapLen(x)))
		case *ChanV:
			if x == nil {
				return ex.i64(0)
			}
			return ex.i64(int64(len(x.buf)))
		}
	case "cap":
		switch x := args[0].(type) {
		case *SliceV:
			if x.isNil() {
				return ex.i64(0)
			}
			return x.cap
		case ArrV:
			return ex.i64(int64(len(x)))
		case *Value:
			return ex.i64(int64(len((*x).(ArrV))))
		case *ChanV:
			if x == nil {
				return ex.i64(0)
			}
			return ex.i64(int64(x.cap))
		}
	case "append":
		return ex.appendOp(args[0], args[1])
	case "copy":
		return ex.copyOp(args[0], args[1])
	case "delete":
		m, _ := args[0].(*MapV)
		if m != nil {
			ex.effect()
			ex.mapDelete(m, args[1])
		}
		return nil
	case "close":
		c := args[0].(*ChanV)
		if c == nil {
			ex.throw("close of nil channel")
		}
		if c.closed {
			ex.throw("close of closed channel")
		}
		ex.effect()
		c.closed = true
		if ex.threads != nil {
			ex.threads.wakeAll()
		}
		return nil
	case "panic":
		panic(targetPanic{v: args[0], msg: ex.panicMessage(args[0])})
	case "recover":
		return ex.doRecover(caller)
	case "print", "println":
		return nil
	case "min", "max":
		r := args[0].(*Term)
		for _, a := range args[1:] {
			t := a.(*Term)
			var lt *Term
			if r.IsFloat() {
				lt = tc.FCmp(OFLt, t, r)
			} else if isSigned(fn.Type().(*types.Signature).Params().At(0).Type()) {
				lt = tc.Cmp(OSlt, t, r)
			} else {
				lt = tc.Cmp(OUlt, t, r)
			}
			if fn.Name() == "min" {
				r = tc.Ite(lt, t, r)
			} else {
				r = tc.Ite(lt, r, t)
			}
		}
		return r
	case "clear":
		switch x := args[0].(type) {
		case *MapV:
			if x != nil {
				x.ents = nil
			}
		default:
			panic(engineErr("clear on %T", x))
		}
		return nil
	case "ssa:wrapnilchk":
		if isNilValue(args[0]) {
			ex.throw("value method called using nil pointer")
		}
		return args[0]
	}
	panic(engineErr("builtin %s on %T unsupported", fn.Name(), args[0]))
}

func (ex *Exec) doRecover(caller *frame) Value {
	if caller != nil && !caller.panicking && caller.caller != nil && caller.caller.panicking {
		caller.caller.panicking = false
		p := caller.caller.panicVal
		caller.caller.panicVal = nil
		if tp, ok := p.(targetPanic); ok {
			if _, isI := tp.v.(IfaceV); isI {
				return tp.v
			}
			return IfaceV{t: types.Typ[types.String], v: ex.mkStr(tp.msg)}
		}
	}
	return IfaceV{}
}

func (ex *Exec) appendOp(a, b Value) Value {
	tc := ex.tc
	// append([]byte, string...) is legal
	var src []Value
	switch bv := b.(type) {
	case *StrV:
		for _, t := range bv.b {
			src = append(src, t)
		}
	case *SliceV:
		if !bv.isNil() {
			n := ex.sliceLen(bv)
			for i := int64(0); i < n; i++ {
				src = append(src, *bv.elem(i))
			}
		}
	case nil:
	default:
		panic(engineErr("append of %T", b))
	}
	as, _ := a.(*SliceV)
	if len(src) == 0 {
		if as == nil {
			return (*SliceV)(nil)
		}
		return as
	}
	ex.effect()
	if as.isNil() {
		d := make([]Value, len(src))
		for i, v := range src {
			d[i] = copyVal(v)
		}
		return ex.mkDenseSlice(d)
	}
	n := ex.sliceLen(as)
	if as.sp != nil {
		panic(engineErr("append to sparse slice unsupported"))
	}
	cp := int64(len(as.dense))
	if n+int64(len(src)) <= cp {
		for i, v := range src {
			as.dense[n+int64(i)] = copyVal(v)
		}
		return &SliceV{dense: as.dense, len: ex.i64(n + int64(len(src))), cap: as.cap}
	}
	// grow: new backing array (capacity doubling, as the runtime does approximately)
	newCap := cp * 2
	if newCap < n+int64(len(src)) {
		newCap = n + int64(len(src))
	}
	d := make([]Value, newCap)
	for i := int64(0); i < n; i++ {
		d[i] = copyVal(as.dense[i])
	}
	for i, v := range src {
		d[n+int64(i)] = copyVal(v)
	}
	if newCap > n+int64(len(src)) {
		// zero-fill spare capacity with the element zero (derive from an element)
		var z Value
		switch e := d[0].(type) {
		case *Term:
			if e.IsFloat() {
				z = tc.FConst(int(e.w), 0)
			} else {
				z = tc.Const(int(e.w), 0)
			}
		}
		for i := n + int64(len(src)); i < newCap; i++ {
			if z != nil {
				d[i] = z
			} else {
				d[i] = zeroLike(ex, d[0])
			}
		}
	}
	return &SliceV{dense: d, len: ex.i64(n + int64(len(src))), cap: ex.i64(newCap)}
}

func zeroLike(ex *Exec, v Value) Value {
	switch v := v.(type) {
	case *Term:
		if v.IsFloat() {
			return ex.tc.FConst(int(v.w), 0)
		}
		return ex.tc.Const(int(v.w), 0)
	case *StrV:
		return ex.emptyStr
	case *Value:
		return (*Value)(nil)
	case StructV:
		n := make(StructV, len(v))
		for i := range v {
			n[i] = zeroLike(ex, v[i])
		}
		return n
	case ArrV:
		n := make(ArrV, len(v))
		for i := range v {
			n[i] = zeroLike(ex, v[i])
		}
		return n
	case IfaceV:
		return IfaceV{}
	case *SliceV:
		return (*SliceV)(nil)
	case *MapV:
		return (*MapV)(nil)
	case *Closure, *ssa.Function, nil:
		return nil
	case *ChanV:
		return (*ChanV)(nil)
	}
	panic(engineErr("zeroLike %T", v))
}

func (ex *Exec) copyOp(dst, src Value) Value {
	tc := ex.tc
	d, _ := dst.(*SliceV)
	if d.isNil() {
		return ex.i64(0)
	}
	var srcLen *Term
	var getSrc func(i int64) Value
	switch s := src.(type) {
	case *StrV:
		srcLen = ex.i64(int64(len(s.b)))
		getSrc = func(i int64) Value { return s.b[i] }
	case *SliceV:
		if s.isNil() {
			return ex.i64(0)
		}
		srcLen = s.len
		getSrc = func(i int64) Value { return *s.elem(i) }
	default:
		panic(engineErr("copy from %T", src))
	}
	// n = min(len(dst), len(src)), concretised
	nT := tc.Ite(tc.Cmp(OSlt, d.len, srcLen), d.len, srcLen)
	n := int64(ex.concretize(nT, "copy length"))
	if n > 0 {
		ex.effect()
	}
	// handle overlap like memmove: read all first
	tmp := make([]Value, n)
	for i := int64(0); i < n; i++ {
		tmp[i] = copyVal(getSrc(i))
	}
	for i := int64(0); i < n; i++ {
		*d.elem(i) = tmp[i]
	}
	// a whole-buffer copy carries the opaque payload handle / number tag of the source along
	if ss, ok := src.(*SliceV); ok && (ss.tok != nil || ss.num != nil) {
		if sl, ok1 := ss.len.IsConst(), d.len.IsConst(); sl && ok1 && int64(ss.len.val) == n && int64(d.len.val) == n {
			d.tok = ss.tok
			d.num = ss.num
		}
	}
	return ex.i64(n)
}

// ---------------------------------------------------------------- maps

func (ex *Exec) keyEq(t types.Type, a, b Value) *Term {
	return ex.equal(t, a, b)
}

// mapFind returns the entry whose key equals k (forking on symbolic equality), or nil.
func (ex *Exec) mapFind(m *MapV, k Value) *mapEnt {
	if m == nil {
		return nil
	}
	kt := m.t.Key()
	for _, e := range m.ents {
		if !e.live {
			continue
		}
		eq := ex.keyEq(kt, e.k, k)
		if ex.branch(eq) {
			return e
		}
	}
	return nil
}

func (ex *Exec) mapLen(m *MapV) int {
	n := 0
	for _, e := range m.ents {
		if e.live {
			n++
		}
	}
	return n
}

func (ex *Exec) mapInsert(m *MapV, k, v Value) {
	if e := ex.mapFind(m, k); e != nil {
		*e.v = v
		return
	}
	p := new(Value)
	*p = v
	m.ents = append(m.ents, &mapEnt{k: copyVal(k), v: p, live: true})
}

func (ex *Exec) mapDelete(m *MapV, k Value) {
	if e := ex.mapFind(m, k); e != nil {
		e.live = false
		// compact
		out := m.ents[:0:0]
		for _, x := range m.ents {
			if x.live {
				out = append(out, x)
			}
		}
		m.ents = out
	}
}

func (ex *Exec) lookup(in *ssa.Lookup, x, k Value) Value {
	switch xv := x.(type) {
	case *StrV:
		i := ex.toIndex(k.(*Term), isSigned(in.Index.Type()))
		idx := ex.checkIndex(i, ex.i64(int64(len(xv.b))))
		return xv.b[idx]
	case *MapV:
		var v Value
		ok := false
		if e := ex.mapFind(xv, k); e != nil {
			v = copyVal(*e.v)
			ok = true
		} else {
			v = ex.zero(in.X.Type().Underlying().(*types.Map).Elem())
		}
		if in.CommaOk {
			return Tuple{v, ex.tc.Bool(ok)}
		}
		return v
	}
	panic(engineErr("lookup on %T", x))
}

// ---------------------------------------------------------------- range iterators

type iterator interface {
	next(ex *Exec) Value
}

type strIter struct {
	s *StrV
	i int
}

func (it *strIter) next(ex *Exec) Value {
	if it.i >= len(it.s.b) {
		return Tuple{ex.tc.False, ex.i64(0), ex.tc.Const(32, 0)}
	}
	b := it.s.b[it.i]
	if b.IsConst() && b.val < 0x80 {
		r := Tuple{ex.tc.True, ex.i64(int64(it.i)), ex.tc.Const(32, b.val)}
		it.i++
		return r
	}
	// non-ASCII or symbolic byte: require ASCII (fork: ascii vs not)
	if ex.branch(ex.tc.Cmp(OUlt, b, ex.u8(0x80))) {
		r := Tuple{ex.tc.True, ex.i64(int64(it.i)), ex.tc.Zext(32, b)}
		it.i++
		return r
	}
	// concrete multi-byte decoding when possible
	if s, ok := it.s.conc(); ok {
		for j, r := range s[it.i:] {
			_ = j
			sz := len(string(r))
			if r == 0xFFFD {
				sz = 1
			}
			out := Tuple{ex.tc.True, ex.i64(int64(it.i)), ex.tc.Const(32, uint64(r))}
			it.i += sz
			return out
		}
	}
	panic(pathEnd{"bound", "range over string with symbolic non-ASCII byte (outside the bound)"})
}

type mapIter struct {
	ents []*mapEnt
	i    int
}

func (it *mapIter) next(ex *Exec) Value {
	for it.i < len(it.ents) {
		e := it.ents[it.i]
		it.i++
		if e.live {
			return Tuple{ex.tc.True, copyVal(e.k), copyVal(*e.v)}
		}
	}
	return Tuple{ex.tc.False, nil, nil}
}

func (ex *Exec) rangeIter(x Value, t types.Type) iterator {
	switch xv := x.(type) {
	case *StrV:
		return &strIter{s: xv}
	case *MapV:
		if xv == nil {
			return &mapIter{}
		}
		ents := append([]*mapEnt{}, xv.ents...)
		n := len(ents)
		switch ex.mapOrder {
		case "rotate":
			if n > 1 {
				k := ex.choose(n)
				ex.recordConcreteInput("maporder", "rot", uint64(k))
				ents = append(ents[k:], ents[:k]...)
			}
		case "reverse":
			if n > 1 {
				k := ex.choose(2)
				ex.recordConcreteInput("maporder", "rev", uint64(k))
				if k == 1 {
					for i, j := 0, n-1; i < j; i, j = i+1, j-1 {
						ents[i], ents[j] = ents[j], ents[i]
					}
				}
			}
		}
		return &mapIter{ents: ents}
	}
	panic(engineErr("range over %T", x))
}

var _ = fmt.Sprintf
