package main

// Term language: hash-consed bit-vector / Bool / Float64 terms with a constant-folding
// simplifier and SMT-LIB2 printing. One TermCtx per symbolic run (not shared between workers).

import (
	"fmt"
	"math"
	"math/bits"
	"strings"
)

// Width encoding: 0 = Bool, >0 = bit-vector of that width (1..64), WF64 = Float64, WF32 = Float32.
const (
	WF64 = -64
	WF32 = -32
)

type Op uint8

const (
	OConst Op = iota
	OVar
	OAdd
	OSub
	OMul
	OUDiv
	OSDiv
	OURem
	OSRem
	OAnd
	OOr
	OXor
	OShl
	OLShr
	OAShr
	OBvNot
	ONeg
	OConcat
	OExtract // val = hi<<8 | lo
	OZext
	OSext
	OEq
	OUlt
	OUle
	OSlt
	OSle
	OBAnd
	OBOr
	OBNot
	OIte
	// floats
	OFAdd
	OFSub
	OFMul
	OFDiv
	OFNeg
	OFLt
	OFLe
	OFEq
	OFFromU // unsigned bv -> float
	OFFromS // signed bv -> float
	OFToU   // float -> unsigned bv (RTZ)
	OFToS
	OFToF // float<->float conversion
	OFDurSec // time.Duration(d).Seconds(): float64(d/1e9) + float64(d%1e9)/1e9, monotone in d
)

var opSMT = map[Op]string{
	OAdd: "bvadd", OSub: "bvsub", OMul: "bvmul", OUDiv: "bvudiv", OSDiv: "bvsdiv", OURem: "bvurem", OSRem: "bvsrem",
	OAnd: "bvand", OOr: "bvor", OXor: "bvxor", OShl: "bvshl", OLShr: "bvlshr", OAShr: "bvashr", OBvNot: "bvnot", ONeg: "bvneg",
	OConcat: "concat", OEq: "=", OUlt: "bvult", OUle: "bvule", OSlt: "bvslt", OSle: "bvsle", OBAnd: "and", OBOr: "or", OBNot: "not", OIte: "ite",
	OFLt: "fp.lt", OFLe: "fp.leq", OFEq: "fp.eq", OFNeg: "fp.neg",
}

type Term struct {
	op      Op
	w       int16
	a, b, c *Term
	val     uint64 // constant value / extract params
	name    string
	id      int
	defined bool // emitted to the solver as define-fun
}

type termKey struct {
	op      Op
	w       int16
	a, b, c int
	val     uint64
	name    string
}

type TermCtx struct {
	tab   map[termKey]*Term
	next  int
	vars  []*Term
	True  *Term
	False *Term
}

func NewTermCtx() *TermCtx {
	c := &TermCtx{tab: make(map[termKey]*Term, 1<<12)}
	c.True = c.mk(OConst, 0, nil, nil, nil, 1, "")
	c.False = c.mk(OConst, 0, nil, nil, nil, 0, "")
	return c
}

func tid(t *Term) int {
	if t == nil {
		return -1
	}
	return t.id
}

func (c *TermCtx) mk(op Op, w int, a, b, cc *Term, val uint64, name string) *Term {
	k := termKey{op, int16(w), tid(a), tid(b), tid(cc), val, name}
	if t, ok := c.tab[k]; ok {
		return t
	}
	t := &Term{op: op, w: int16(w), a: a, b: b, c: cc, val: val, name: name, id: c.next}
	c.next++
	c.tab[k] = t
	return t
}

func mask(w int) uint64 {
	if w >= 64 {
		return ^uint64(0)
	}
	return (uint64(1) << uint(w)) - 1
}

func (t *Term) IsConst() bool { return t.op == OConst }
func (t *Term) Width() int    { return int(t.w) }
func (t *Term) IsFloat() bool { return t.w < 0 }
func (t *Term) IsBool() bool  { return t.w == 0 }

// signed value of a constant of width w
func (t *Term) SVal() int64 {
	w := int(t.w)
	if w <= 0 || w >= 64 {
		return int64(t.val)
	}
	v := t.val
	if v&(1<<uint(w-1)) != 0 {
		v |= ^mask(w)
	}
	return int64(v)
}

func (t *Term) FVal() float64 {
	if t.w == WF32 {
		return float64(math.Float32frombits(uint32(t.val)))
	}
	return math.Float64frombits(t.val)
}

func (c *TermCtx) Const(w int, v uint64) *Term {
	if w == 0 {
		if v != 0 {
			return c.True
		}
		return c.False
	}
	if w > 0 {
		v &= mask(w)
	}
	return c.mk(OConst, w, nil, nil, nil, v, "")
}

func (c *TermCtx) Bool(b bool) *Term {
	if b {
		return c.True
	}
	return c.False
}

func (c *TermCtx) FConst(w int, f float64) *Term {
	if w == WF32 {
		return c.mk(OConst, w, nil, nil, nil, uint64(math.Float32bits(float32(f))), "")
	}
	return c.mk(OConst, w, nil, nil, nil, math.Float64bits(f), "")
}

func (c *TermCtx) Var(w int, name string) *Term {
	k := termKey{OVar, int16(w), -1, -1, -1, 0, name}
	if t, ok := c.tab[k]; ok {
		return t
	}
	t := c.mk(OVar, w, nil, nil, nil, 0, name)
	c.vars = append(c.vars, t)
	return t
}

// ---------------------------------------------------------------- bit-vector ops

func (c *TermCtx) Bin(op Op, x, y *Term) *Term {
	w := int(x.w)
	if x.w != y.w {
		panic(engineErr("term width mismatch in op %d: %d vs %d", op, x.w, y.w))
	}
	if x.IsConst() && y.IsConst() {
		a, b := x.val, y.val
		var r uint64
		ok := true
		switch op {
		case OAdd:
			r = a + b
		case OSub:
			r = a - b
		case OMul:
			r = a * b
		case OUDiv:
			if b == 0 {
				r = mask(w)
			} else {
				r = a / b
			}
		case OURem:
			if b == 0 {
				r = a
			} else {
				r = a % b
			}
		case OSDiv:
			sa, sb := x.SVal(), y.SVal()
			if sb == 0 {
				if sa >= 0 {
					r = mask(w)
				} else {
					r = 1
				}
			} else if sb == -1 {
				r = uint64(-sa)
			} else {
				r = uint64(sa / sb)
			}
		case OSRem:
			sa, sb := x.SVal(), y.SVal()
			if sb == 0 {
				r = uint64(sa)
			} else if sb == -1 {
				r = 0
			} else {
				r = uint64(sa % sb)
			}
		case OAnd:
			r = a & b
		case OOr:
			r = a | b
		case OXor:
			r = a ^ b
		case OShl:
			if b >= uint64(w) {
				r = 0
			} else {
				r = a << b
			}
		case OLShr:
			if b >= uint64(w) {
				r = 0
			} else {
				r = a >> b
			}
		case OAShr:
			sa := x.SVal()
			if b >= uint64(w) {
				if sa < 0 {
					r = mask(w)
				} else {
					r = 0
				}
			} else {
				r = uint64(sa >> b)
			}
		default:
			ok = false
		}
		if ok {
			return c.Const(w, r)
		}
	}
	// identities
	switch op {
	case OAdd:
		if x.IsConst() {
			x, y = y, x
		}
		if y.IsConst() {
			if y.val == 0 {
				return x
			}
			if x.op == OAdd && x.b.IsConst() {
				return c.Bin(OAdd, x.a, c.Const(w, x.b.val+y.val))
			}
			if x.op == OSub && x.b.IsConst() { // (a - k1) + k2
				return c.Bin(OAdd, x.a, c.Const(w, y.val-x.b.val))
			}
		}
	case OSub:
		if y.IsConst() {
			if y.val == 0 {
				return x
			}
			return c.Bin(OAdd, x, c.Const(w, -y.val))
		}
		if x == y {
			return c.Const(w, 0)
		}
		// (a + k) - a = k
		if x.op == OAdd && x.a == y && x.b.IsConst() {
			return x.b
		}
	case OMul:
		if x.IsConst() {
			x, y = y, x
		}
		if y.IsConst() {
			if y.val == 0 {
				return y
			}
			if y.val == 1 {
				return x
			}
		}
	case OAnd:
		if x.IsConst() {
			x, y = y, x
		}
		if y.IsConst() {
			if y.val == 0 {
				return y
			}
			if y.val == mask(w) {
				return x
			}
		}
		if x == y {
			return x
		}
	case OOr:
		if x.IsConst() {
			x, y = y, x
		}
		if y.IsConst() {
			if y.val == 0 {
				return x
			}
			if y.val == mask(w) {
				return y
			}
		}
		if x == y {
			return x
		}
	case OXor:
		if x.IsConst() {
			x, y = y, x
		}
		if y.IsConst() && y.val == 0 {
			return x
		}
		if x == y {
			return c.Const(w, 0)
		}
	case OShl, OLShr, OAShr:
		if y.IsConst() && y.val == 0 {
			return x
		}
		if y.IsConst() && y.val >= uint64(w) && op != OAShr {
			return c.Const(w, 0)
		}
		// byte extraction pattern: (x >> 8k) is kept; trunc handles via extract
	case OUDiv:
		if y.IsConst() && y.val == 1 {
			return x
		}
	}
	if (op == OAdd || op == OMul || op == OAnd || op == OOr || op == OXor) && x.id > y.id && !y.IsConst() {
		x, y = y, x
	}
	return c.mk(op, w, x, y, nil, 0, "")
}

func (c *TermCtx) BvNot(x *Term) *Term {
	if x.IsConst() {
		return c.Const(int(x.w), ^x.val)
	}
	if x.op == OBvNot {
		return x.a
	}
	return c.mk(OBvNot, int(x.w), x, nil, nil, 0, "")
}

func (c *TermCtx) Neg(x *Term) *Term {
	if x.IsConst() {
		return c.Const(int(x.w), -x.val)
	}
	return c.mk(ONeg, int(x.w), x, nil, nil, 0, "")
}

func (c *TermCtx) Extract(hi, lo int, x *Term) *Term {
	w := hi - lo + 1
	if lo == 0 && w == int(x.w) {
		return x
	}
	if x.IsConst() {
		return c.Const(w, x.val>>uint(lo))
	}
	switch x.op {
	case OExtract:
		l0 := int(x.val & 0xff)
		return c.Extract(hi+l0, lo+l0, x.a)
	case OConcat:
		wb := int(x.b.w)
		if lo >= wb {
			return c.Extract(hi-wb, lo-wb, x.a)
		}
		if hi < wb {
			return c.Extract(hi, lo, x.b)
		}
	case OZext:
		wa := int(x.a.w)
		if hi < wa {
			return c.Extract(hi, lo, x.a)
		}
		if lo >= wa {
			return c.Const(w, 0)
		}
	case OSext:
		wa := int(x.a.w)
		if hi < wa {
			return c.Extract(hi, lo, x.a)
		}
	case OLShr:
		// extract(h,l, x>>k) = extract(h+k, l+k, x) when in range
		if x.b.IsConst() {
			k := int(x.b.val)
			if hi+k < int(x.w) {
				return c.Extract(hi+k, lo+k, x.a)
			}
		}
	case OAnd, OOr, OXor:
		if lo == 0 { // truncation distributes
			return c.Bin(x.op, c.Extract(hi, lo, x.a), c.Extract(hi, lo, x.b))
		}
	case OAdd, OSub, OMul:
		if lo == 0 {
			return c.Bin(x.op, c.Extract(hi, lo, x.a), c.Extract(hi, lo, x.b))
		}
	case OIte:
		if x.a != nil && (x.b.IsConst() || x.c.IsConst()) {
			return c.Ite(x.a, c.Extract(hi, lo, x.b), c.Extract(hi, lo, x.c))
		}
	}
	return c.mk(OExtract, w, x, nil, nil, uint64(hi)<<8|uint64(lo), "")
}

func (c *TermCtx) Concat(hi, lo *Term) *Term {
	w := int(hi.w) + int(lo.w)
	if w > 64 {
		panic(engineErr("concat wider than 64"))
	}
	if hi.IsConst() && lo.IsConst() {
		return c.Const(w, hi.val<<uint(lo.w)|lo.val)
	}
	if hi.op == OExtract && lo.op == OExtract && hi.a == lo.a {
		h1, l1 := int(hi.val>>8), int(hi.val&0xff)
		h2, l2 := int(lo.val>>8), int(lo.val&0xff)
		_ = h1
		if l1 == h2+1 {
			return c.Extract(h1, l2, hi.a)
		}
	}
	if hi.IsConst() && hi.val == 0 {
		return c.Zext(w, lo)
	}
	return c.mk(OConcat, w, hi, lo, nil, 0, "")
}

func (c *TermCtx) Zext(w int, x *Term) *Term {
	if int(x.w) == w {
		return x
	}
	if int(x.w) > w {
		return c.Extract(w-1, 0, x)
	}
	if x.IsConst() {
		return c.Const(w, x.val)
	}
	if x.op == OZext {
		return c.Zext(w, x.a)
	}
	return c.mk(OZext, w, x, nil, nil, 0, "")
}

func (c *TermCtx) Sext(w int, x *Term) *Term {
	if int(x.w) == w {
		return x
	}
	if int(x.w) > w {
		return c.Extract(w-1, 0, x)
	}
	if x.IsConst() {
		return c.Const(w, uint64(x.SVal()))
	}
	if x.op == OZext { // sign bit is zero
		return c.Zext(w, x.a)
	}
	return c.mk(OSext, w, x, nil, nil, 0, "")
}

// ---------------------------------------------------------------- Bool ops

func (c *TermCtx) Not(x *Term) *Term {
	if x.IsConst() {
		return c.Bool(x.val == 0)
	}
	if x.op == OBNot {
		return x.a
	}
	return c.mk(OBNot, 0, x, nil, nil, 0, "")
}

func (c *TermCtx) And(x, y *Term) *Term {
	if x.IsConst() {
		if x.val == 0 {
			return x
		}
		return y
	}
	if y.IsConst() {
		if y.val == 0 {
			return y
		}
		return x
	}
	if x == y {
		return x
	}
	if x.id > y.id {
		x, y = y, x
	}
	return c.mk(OBAnd, 0, x, y, nil, 0, "")
}

func (c *TermCtx) Or(x, y *Term) *Term {
	if x.IsConst() {
		if x.val != 0 {
			return x
		}
		return y
	}
	if y.IsConst() {
		if y.val != 0 {
			return y
		}
		return x
	}
	if x == y {
		return x
	}
	if x.id > y.id {
		x, y = y, x
	}
	return c.mk(OBOr, 0, x, y, nil, 0, "")
}

func (c *TermCtx) Ite(cond, x, y *Term) *Term {
	if cond.IsConst() {
		if cond.val != 0 {
			return x
		}
		return y
	}
	if x == y {
		return x
	}
	if x.w == 0 && x.IsConst() && y.IsConst() {
		if x.val != 0 {
			return cond
		}
		return c.Not(cond)
	}
	return c.mk(OIte, int(x.w), cond, x, y, 0, "")
}

func (c *TermCtx) Eq(x, y *Term) *Term {
	if x.w != y.w {
		panic(engineErr("eq width mismatch %d vs %d", x.w, y.w))
	}
	if x == y && !x.IsFloat() {
		return c.True
	}
	if x.IsFloat() {
		return c.FCmp(OFEq, x, y)
	}
	if x.IsConst() && y.IsConst() {
		return c.Bool(x.val == y.val)
	}
	if x.w == 0 {
		if x.IsConst() {
			x, y = y, x
		}
		if y.IsConst() {
			if y.val != 0 {
				return x
			}
			return c.Not(x)
		}
	}
	if x.IsConst() {
		x, y = y, x
	}
	if y.IsConst() {
		// (a + k1) == k2  ->  a == k2-k1
		if x.op == OAdd && x.b.IsConst() {
			return c.Eq(x.a, c.Const(int(x.w), y.val-x.b.val))
		}
		// zext(a) == k
		if x.op == OZext {
			if y.val > mask(int(x.a.w)) {
				return c.False
			}
			return c.Eq(x.a, c.Const(int(x.a.w), y.val))
		}
		// ite(c, k1, k2) == k
		if x.op == OIte && x.b.IsConst() && x.c.IsConst() {
			return c.Ite(x.a, c.Bool(x.b.val == y.val), c.Bool(x.c.val == y.val))
		}
	}
	if !y.IsConst() && x.id > y.id {
		x, y = y, x
	}
	return c.mk(OEq, 0, x, y, nil, 0, "")
}

func (c *TermCtx) Cmp(op Op, x, y *Term) *Term {
	if x.w != y.w {
		panic(engineErr("cmp width mismatch %d vs %d", x.w, y.w))
	}
	if x.IsConst() && y.IsConst() {
		switch op {
		case OUlt:
			return c.Bool(x.val < y.val)
		case OUle:
			return c.Bool(x.val <= y.val)
		case OSlt:
			return c.Bool(x.SVal() < y.SVal())
		case OSle:
			return c.Bool(x.SVal() <= y.SVal())
		}
	}
	if x == y {
		return c.Bool(op == OUle || op == OSle)
	}
	if op == OUlt && y.IsConst() && y.val == 0 {
		return c.False
	}
	if op == OUle && x.IsConst() && x.val == 0 {
		return c.True
	}
	// comparisons of zero-extended values against constants narrow down
	if (op == OUlt || op == OUle) && x.op == OZext && y.op == OZext && x.a.w == y.a.w {
		return c.Cmp(op, x.a, y.a)
	}
	return c.mk(op, 0, x, y, nil, 0, "")
}

// ---------------------------------------------------------------- floats

func (c *TermCtx) FBin(op Op, x, y *Term) *Term {
	if x.IsConst() && y.IsConst() {
		a, b := x.FVal(), y.FVal()
		var r float64
		switch op {
		case OFAdd:
			r = a + b
		case OFSub:
			r = a - b
		case OFMul:
			r = a * b
		case OFDiv:
			r = a / b
		}
		if x.w == WF32 {
			switch op {
			case OFAdd:
				r = float64(float32(a) + float32(b))
			case OFSub:
				r = float64(float32(a) - float32(b))
			case OFMul:
				r = float64(float32(a) * float32(b))
			case OFDiv:
				r = float64(float32(a) / float32(b))
			}
		}
		return c.FConst(int(x.w), r)
	}
	return c.mk(op, int(x.w), x, y, nil, 0, "")
}

func (c *TermCtx) FNeg(x *Term) *Term {
	if x.IsConst() {
		return c.FConst(int(x.w), -x.FVal())
	}
	return c.mk(OFNeg, int(x.w), x, nil, nil, 0, "")
}

func (c *TermCtx) FCmp(op Op, x, y *Term) *Term {
	if x.IsConst() && y.IsConst() {
		a, b := x.FVal(), y.FVal()
		switch op {
		case OFLt:
			return c.Bool(a < b)
		case OFLe:
			return c.Bool(a <= b)
		case OFEq:
			return c.Bool(a == b)
		}
	}
	if op == OFLt || op == OFLe {
		if r := c.monoFCmp(op, x, y); r != nil {
			return r
		}
		if r := c.monoDurCmp(op, x, y); r != nil {
			return r
		}
	}
	if op == OFEq && ((x.op == OFDurSec && y.IsConst()) || (y.op == OFDurSec && x.IsConst())) {
		// a == k  <=>  a <= k and k <= a
		return c.And(c.FCmp(OFLe, x, y), c.FCmp(OFLe, y, x))
	}
	return c.mk(op, 0, x, y, nil, 0, "")
}

// monoFCmp rewrites a comparison between a float constant K and g(x) = float64(x)*C (x an unsigned
// bit-vector, C a positive constant, or C absent) into an exact unsigned bit-vector threshold test.
// g is monotone non-decreasing in x, so {x : g(x) <= K} is a prefix of the unsigned order and
// {x : K <= g(x)} a suffix; the threshold is found by native binary search with the same IEEE
// arithmetic (float64 conversion and multiplication, round to nearest even) that Go performs.
func (c *TermCtx) monoFCmp(op Op, x, y *Term) *Term {
	if x.w != WF64 {
		return nil
	}
	decomp := func(t *Term) (*Term, float64, bool) {
		if t.op == OFFromU && t.w == WF64 {
			return t.a, 1, true
		}
		if t.op == OFMul {
			if t.a.op == OFFromU && t.b.IsConst() && t.b.FVal() > 0 && !math.IsInf(t.b.FVal(), 0) {
				return t.a.a, t.b.FVal(), true
			}
			if t.b.op == OFFromU && t.a.IsConst() && t.a.FVal() > 0 && !math.IsInf(t.a.FVal(), 0) {
				return t.b.a, t.a.FVal(), true
			}
		}
		return nil, 0, false
	}
	w := 0
	var bv *Term
	var cf, k float64
	gLeft := false
	if y.IsConst() {
		b, cc, ok := decomp(x)
		if !ok {
			return nil
		}
		bv, cf, k, gLeft = b, cc, y.FVal(), true
	} else if x.IsConst() {
		b, cc, ok := decomp(y)
		if !ok {
			return nil
		}
		bv, cf, k, gLeft = b, cc, x.FVal(), false
	} else {
		return nil
	}
	if math.IsNaN(k) {
		return c.False
	}
	w = int(bv.w)
	maxv := mask(w)
	g := func(v uint64) float64 { return float64(v) * cf }
	var pred func(v uint64) bool
	if gLeft { // g(x) op K : downward closed
		if op == OFLt {
			pred = func(v uint64) bool { return g(v) < k }
		} else {
			pred = func(v uint64) bool { return g(v) <= k }
		}
		if !pred(0) {
			return c.False
		}
		if pred(maxv) {
			return c.True
		}
		lo, hi := uint64(0), maxv // pred(lo) true, pred(hi) false
		for hi-lo > 1 {
			mid := lo + (hi-lo)/2
			if pred(mid) {
				lo = mid
			} else {
				hi = mid
			}
		}
		return c.Cmp(OUle, bv, c.Const(w, lo))
	}
	// K op g(x) : upward closed
	if op == OFLt {
		pred = func(v uint64) bool { return k < g(v) }
	} else {
		pred = func(v uint64) bool { return k <= g(v) }
	}
	if pred(0) {
		return c.True
	}
	if !pred(maxv) {
		return c.False
	}
	lo, hi := uint64(0), maxv // pred(lo) false, pred(hi) true
	for hi-lo > 1 {
		mid := lo + (hi-lo)/2
		if pred(mid) {
			hi = mid
		} else {
			lo = mid
		}
	}
	return c.Cmp(OUle, c.Const(w, hi), bv)
}

// FFromInt converts a bit-vector to float of sort fw.
func (c *TermCtx) FFromInt(fw int, x *Term, signed bool) *Term {
	if x.IsConst() {
		if signed {
			return c.FConst(fw, float64(x.SVal()))
		}
		return c.FConst(fw, float64(x.val))
	}
	op := OFFromU
	if signed {
		op = OFFromS
	}
	return c.mk(op, fw, x, nil, nil, 0, "")
}

func (c *TermCtx) FToInt(w int, x *Term, signed bool) *Term {
	// int(float64(n) * K) for an integer-valued constant K: exact integer product as long as |n*K| < 2^53; the
	// harnesses that reach this (digit strings of <= 6 characters times 1e9) stay far below that
	if x.op == OFMul && w == 64 {
		a, b := x.a, x.b
		if a.IsConst() {
			a, b = b, a
		}
		if b.IsConst() && (a.op == OFFromS || a.op == OFFromU) && a.a.w == 64 {
			k := b.FVal()
			if k == math.Trunc(k) && math.Abs(k) < 1e15 {
				return c.Bin(OMul, a.a, c.Const(64, uint64(int64(k))))
			}
		}
	}
	if x.IsConst() {
		f := x.FVal()
		if signed {
			return c.Const(w, uint64(int64(f)))
		}
		return c.Const(w, uint64(f))
	}
	op := OFToU
	if signed {
		op = OFToS
	}
	return c.mk(op, w, x, nil, nil, 0, "")
}

func (c *TermCtx) FToF(fw int, x *Term) *Term {
	if int(x.w) == fw {
		return x
	}
	if x.IsConst() {
		return c.FConst(fw, x.FVal())
	}
	return c.mk(OFToF, fw, x, nil, nil, 0, "")
}

// DurSeconds is time.Duration(d).Seconds() for a 64-bit signed nanosecond count.
func (c *TermCtx) DurSeconds(d *Term) *Term {
	if d.IsConst() {
		v := d.SVal()
		sec := v / 1000000000
		nsec := v % 1000000000
		return c.FConst(WF64, float64(sec)+float64(nsec)/1e9)
	}
	return c.mk(OFDurSec, WF64, d, nil, nil, 0, "")
}

func durSecondsNative(v int64) float64 {
	return float64(v/1000000000) + float64(v%1000000000)/1e9
}

// monoDurCmp rewrites comparisons between DurSeconds(d) and a float constant into exact signed thresholds
// on d (DurSeconds is monotone non-decreasing in d).
func (c *TermCtx) monoDurCmp(op Op, x, y *Term) *Term {
	var d *Term
	var k float64
	gLeft := false
	switch {
	case x.op == OFDurSec && y.IsConst():
		d, k, gLeft = x.a, y.FVal(), true
	case y.op == OFDurSec && x.IsConst():
		d, k, gLeft = y.a, x.FVal(), false
	default:
		return nil
	}
	if math.IsNaN(k) {
		return c.False
	}
	const minI, maxI = math.MinInt64, math.MaxInt64
	var pred func(v int64) bool
	if gLeft {
		if op == OFLt {
			pred = func(v int64) bool { return durSecondsNative(v) < k }
		} else {
			pred = func(v int64) bool { return durSecondsNative(v) <= k }
		}
		if !pred(minI) {
			return c.False
		}
		if pred(maxI) {
			return c.True
		}
		lo, hi := int64(minI), int64(maxI)
		for uint64(hi)-uint64(lo) > 1 {
			mid := int64(uint64(lo) + (uint64(hi)-uint64(lo))/2)
			if pred(mid) {
				lo = mid
			} else {
				hi = mid
			}
		}
		return c.Cmp(OSle, d, c.Const(64, uint64(lo)))
	}
	if op == OFLt {
		pred = func(v int64) bool { return k < durSecondsNative(v) }
	} else {
		pred = func(v int64) bool { return k <= durSecondsNative(v) }
	}
	if pred(minI) {
		return c.True
	}
	if !pred(maxI) {
		return c.False
	}
	lo, hi := int64(minI), int64(maxI)
	for uint64(hi)-uint64(lo) > 1 {
		mid := int64(uint64(lo) + (uint64(hi)-uint64(lo))/2)
		if pred(mid) {
			hi = mid
		} else {
			lo = mid
		}
	}
	return c.Cmp(OSle, c.Const(64, uint64(hi)), d)
}

// ---------------------------------------------------------------- printing

func sortSMT(w int) string {
	switch {
	case w == 0:
		return "Bool"
	case w == WF64:
		return "(_ FloatingPoint 11 53)"
	case w == WF32:
		return "(_ FloatingPoint 8 24)"
	}
	return fmt.Sprintf("(_ BitVec %d)", w)
}

func fpParams(w int) string {
	if w == WF32 {
		return "8 24"
	}
	return "11 53"
}

func constSMT(t *Term) string {
	w := int(t.w)
	switch {
	case w == 0:
		if t.val != 0 {
			return "true"
		}
		return "false"
	case w == WF64:
		return fmt.Sprintf("((_ to_fp 11 53) #x%016x)", t.val)
	case w == WF32:
		return fmt.Sprintf("((_ to_fp 8 24) #x%08x)", t.val)
	case w%4 == 0:
		return fmt.Sprintf("#x%0*x", w/4, t.val)
	}
	return fmt.Sprintf("(_ bv%d %d)", t.val, w)
}

// ref returns how a term is referred to inside another term's definition.
func ref(t *Term) string {
	switch t.op {
	case OConst:
		return constSMT(t)
	case OVar:
		return t.name
	}
	return fmt.Sprintf("t%d", t.id)
}

func bodySMT(t *Term) string {
	switch t.op {
	case OExtract:
		return fmt.Sprintf("((_ extract %d %d) %s)", t.val>>8, t.val&0xff, ref(t.a))
	case OZext:
		return fmt.Sprintf("((_ zero_extend %d) %s)", int(t.w)-int(t.a.w), ref(t.a))
	case OSext:
		return fmt.Sprintf("((_ sign_extend %d) %s)", int(t.w)-int(t.a.w), ref(t.a))
	case OFAdd, OFSub, OFMul, OFDiv:
		n := map[Op]string{OFAdd: "fp.add", OFSub: "fp.sub", OFMul: "fp.mul", OFDiv: "fp.div"}[t.op]
		return fmt.Sprintf("(%s RNE %s %s)", n, ref(t.a), ref(t.b))
	case OFFromU:
		return fmt.Sprintf("((_ to_fp_unsigned %s) RNE %s)", fpParams(int(t.w)), ref(t.a))
	case OFFromS:
		return fmt.Sprintf("((_ to_fp %s) RNE %s)", fpParams(int(t.w)), ref(t.a))
	case OFToU:
		return fmt.Sprintf("((_ fp.to_ubv %d) RTZ %s)", t.w, ref(t.a))
	case OFToS:
		return fmt.Sprintf("((_ fp.to_sbv %d) RTZ %s)", t.w, ref(t.a))
	case OFToF:
		return fmt.Sprintf("((_ to_fp %s) RNE %s)", fpParams(int(t.w)), ref(t.a))
	case OFDurSec:
		d := ref(t.a)
		return fmt.Sprintf("(fp.add RNE ((_ to_fp 11 53) RNE (bvsdiv %s #x000000003b9aca00)) (fp.div RNE ((_ to_fp 11 53) RNE (bvsrem %s #x000000003b9aca00)) ((_ to_fp 11 53) #x41cdcd6500000000)))", d, d)
	}
	name := opSMT[t.op]
	var sb strings.Builder
	sb.WriteString("(")
	sb.WriteString(name)
	for _, x := range []*Term{t.a, t.b, t.c} {
		if x != nil {
			sb.WriteString(" ")
			sb.WriteString(ref(x))
		}
	}
	sb.WriteString(")")
	return sb.String()
}

// String renders a term fully expanded (debugging / samples); bounded depth.
func (t *Term) String() string { return t.str(6) }

func (t *Term) str(d int) string {
	switch t.op {
	case OConst:
		if t.w == 0 {
			return constSMT(t)
		}
		if t.w < 0 {
			return fmt.Sprintf("%g", t.FVal())
		}
		return fmt.Sprintf("%d", t.val)
	case OVar:
		return t.name
	}
	if d == 0 {
		return "…"
	}
	var sb strings.Builder
	sb.WriteString("(")
	if t.op == OExtract {
		fmt.Fprintf(&sb, "extract[%d:%d]", t.val>>8, t.val&0xff)
	} else if n, ok := opSMT[t.op]; ok {
		sb.WriteString(n)
	} else {
		fmt.Fprintf(&sb, "op%d", t.op)
	}
	for _, x := range []*Term{t.a, t.b, t.c} {
		if x != nil {
			sb.WriteString(" ")
			sb.WriteString(x.str(d - 1))
		}
	}
	sb.WriteString(")")
	return sb.String()
}

// eval evaluates a term under a variable assignment (used to validate models and concretise).
func (t *Term) eval(env map[string]uint64, memo map[*Term]uint64) uint64 {
	if t.op == OConst {
		return t.val
	}
	if v, ok := memo[t]; ok {
		return v
	}
	var r uint64
	w := int(t.w)
	ev := func(x *Term) uint64 { return x.eval(env, memo) }
	sv := func(x *Term) int64 {
		v := ev(x)
		xw := int(x.w)
		if xw > 0 && xw < 64 && v&(1<<uint(xw-1)) != 0 {
			v |= ^mask(xw)
		}
		return int64(v)
	}
	b2u := func(b bool) uint64 {
		if b {
			return 1
		}
		return 0
	}
	switch t.op {
	case OVar:
		r = env[t.name]
	case OAdd:
		r = ev(t.a) + ev(t.b)
	case OSub:
		r = ev(t.a) - ev(t.b)
	case OMul:
		r = ev(t.a) * ev(t.b)
	case OUDiv:
		if b := ev(t.b); b == 0 {
			r = mask(w)
		} else {
			r = ev(t.a) / b
		}
	case OURem:
		if b := ev(t.b); b == 0 {
			r = ev(t.a)
		} else {
			r = ev(t.a) % b
		}
	case OSDiv:
		a, b := sv(t.a), sv(t.b)
		if b == 0 {
			if a >= 0 {
				r = mask(w)
			} else {
				r = 1
			}
		} else if b == -1 {
			r = uint64(-a)
		} else {
			r = uint64(a / b)
		}
	case OSRem:
		a, b := sv(t.a), sv(t.b)
		if b == 0 {
			r = uint64(a)
		} else if b == -1 {
			r = 0
		} else {
			r = uint64(a % b)
		}
	case OAnd:
		r = ev(t.a) & ev(t.b)
	case OOr:
		r = ev(t.a) | ev(t.b)
	case OXor:
		r = ev(t.a) ^ ev(t.b)
	case OShl:
		if b := ev(t.b); b >= uint64(w) {
			r = 0
		} else {
			r = ev(t.a) << b
		}
	case OLShr:
		if b := ev(t.b); b >= uint64(w) {
			r = 0
		} else {
			r = ev(t.a) >> b
		}
	case OAShr:
		a, b := sv(t.a), ev(t.b)
		if b >= uint64(w) {
			b = 63
		}
		r = uint64(a >> b)
	case OBvNot:
		r = ^ev(t.a)
	case ONeg:
		r = -ev(t.a)
	case OConcat:
		r = ev(t.a)<<uint(t.b.w) | ev(t.b)
	case OExtract:
		r = ev(t.a) >> uint(t.val&0xff)
	case OZext:
		r = ev(t.a)
	case OSext:
		r = uint64(sv(t.a))
	case OEq:
		r = b2u(ev(t.a) == ev(t.b))
	case OUlt:
		r = b2u(ev(t.a) < ev(t.b))
	case OUle:
		r = b2u(ev(t.a) <= ev(t.b))
	case OSlt:
		r = b2u(sv(t.a) < sv(t.b))
	case OSle:
		r = b2u(sv(t.a) <= sv(t.b))
	case OBAnd:
		r = ev(t.a) & ev(t.b)
	case OBOr:
		r = ev(t.a) | ev(t.b)
	case OBNot:
		r = 1 - ev(t.a)
	case OIte:
		if ev(t.a) != 0 {
			r = ev(t.b)
		} else {
			r = ev(t.c)
		}
	default:
		panic(engineErr("eval: unsupported op %d", t.op))
	}
	if w > 0 {
		r &= mask(w)
	}
	memo[t] = r
	return r
}

var _ = bits.Len
