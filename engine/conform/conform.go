// Package conform holds small Go functions that exercise the SSA constructs and integer semantics the symgo
// interpreter implements. `symgo selftest` runs each of them natively (they are linked into the binary) and through
// the interpreter - once with constant arguments and once with solver variables pinned to the same values - and
// compares the results.
package conform

import (
	"encoding/binary"
	"errors"
	"sort"
	"strconv"
	"strings"
	"unsafe"
)

type pair struct {
	a, b uint64
}

type shape interface{ area() uint64 }
type rect struct{ w, h uint64 }
type sq struct{ s uint64 }

func (r rect) area() uint64 { return r.w * r.h }
func (s *sq) area() uint64  { return s.s * s.s }

var errNeg = errors.New("neg")

func chk(x uint64) (uint64, error) {
	if x%3 == 0 {
		return 0, errNeg
	}
	return x + 1, nil
}

// Funcs: every function maps two uint64 to one uint64.
var Funcs = map[string]func(a, b uint64) uint64{
	"add_wrap":  func(a, b uint64) uint64 { return a + b },
	"sub_wrap":  func(a, b uint64) uint64 { return a - b },
	"mul_wrap":  func(a, b uint64) uint64 { return a * b },
	"udiv":      func(a, b uint64) uint64 { return a / (b | 1) },
	"urem":      func(a, b uint64) uint64 { return a % (b | 1) },
	"sdiv":      func(a, b uint64) uint64 { return uint64(int64(a) / (int64(b) | 1)) },
	"srem":      func(a, b uint64) uint64 { return uint64(int64(a) % (int64(b) | 1)) },
	"i8_arith":  func(a, b uint64) uint64 { x, y := int8(a), int8(b); return uint64(int64(x*y + x - y)) },
	"u16_arith": func(a, b uint64) uint64 { x, y := uint16(a), uint16(b); return uint64(x*y + x - y) },
	"i32_shift": func(a, b uint64) uint64 { x := int32(a); return uint64(int64(x >> (b % 40))) },
	"u32_shift": func(a, b uint64) uint64 { x := uint32(a); return uint64(x<<(b%40)) ^ uint64(x>>(b%35)) },
	"shl_big":   func(a, b uint64) uint64 { return a << (b % 70) },
	"sar_big":   func(a, b uint64) uint64 { return uint64(int64(a) >> (b % 70)) },
	"bitops":    func(a, b uint64) uint64 { return (a & b) | (a^b)&^(a>>3) },
	"neg_not":   func(a, b uint64) uint64 { return uint64(-int64(a)) ^ ^b },
	"cmp_signed": func(a, b uint64) uint64 {
		if int64(a) < int64(b) {
			return 1
		}
		if int32(a) >= int32(b) {
			return 2
		}
		return 3
	},
	"cmp_unsigned": func(a, b uint64) uint64 {
		if a < b {
			return 1
		}
		if uint8(a) >= uint8(b) {
			return 2
		}
		return 3
	},
	"conv_chain": func(a, b uint64) uint64 { return uint64(int64(int8(uint16(a)))) + uint64(uint32(int16(b))) },
	"bool_logic": func(a, b uint64) uint64 {
		p, q := a%2 == 0, b%3 == 0
		if p && !q || (q != p) {
			return 7
		}
		return 9
	},
	"loop_sum": func(a, b uint64) uint64 {
		s := uint64(0)
		for i := uint64(0); i < a%17; i++ {
			s += i * b
		}
		return s
	},
	"slice_ops": func(a, b uint64) uint64 {
		s := make([]uint64, 0, 2)
		for i := uint64(0); i < 5; i++ {
			s = append(s, a+i)
		}
		t := s[1:4]
		t[0] = b
		u := append(t[:1], 99)
		return s[1] + s[2] + uint64(len(u)) + uint64(cap(t)) + u[1]
	},
	"slice_copy": func(a, b uint64) uint64 {
		x := []byte{byte(a), byte(a >> 8), byte(b), 4, 5}
		copy(x[1:], x[:3])
		return uint64(x[0]) + uint64(x[1])<<8 + uint64(x[2])<<16 + uint64(x[3])<<24
	},
	"array_val": func(a, b uint64) uint64 {
		arr := [4]uint64{a, b, 3, 4}
		c := arr
		c[0] = 100
		p := &arr
		p[1] = 200
		return arr[0] + arr[1] + c[0] + c[1]
	},
	"struct_copy": func(a, b uint64) uint64 {
		p := pair{a, b}
		q := p
		q.a++
		pp := &p
		pp.b += 2
		return p.a + p.b*3 + q.a*5 + q.b*7
	},
	"map_ops": func(a, b uint64) uint64 {
		m := map[uint64]uint64{1: a, 2: b}
		m[a%4] += 10
		delete(m, 2)
		v, ok := m[2]
		r := uint64(len(m)) + v
		if ok {
			r += 1000
		}
		return r + m[1] + m[a%4]
	},
	"map_struct_key": func(a, b uint64) uint64 {
		m := map[pair]uint64{}
		m[pair{a % 2, b % 2}] = 5
		m[pair{0, 0}] += 3
		return m[pair{0, 0}] + m[pair{1, 1}]*10 + uint64(len(m))*100
	},
	"closure": func(a, b uint64) uint64 {
		c := uint64(0)
		inc := func(d uint64) { c += d }
		for i := uint64(0); i < 3; i++ {
			inc(a + i)
		}
		g := func() func() uint64 { x := b; return func() uint64 { x++; return x } }()
		return c + g() + g()
	},
	"defer_recover": func(a, b uint64) (r uint64) {
		defer func() {
			if e := recover(); e != nil {
				r = 777 + a%5
			}
		}()
		var s []uint64
		if b%2 == 0 {
			return s[a%3] // panics: index out of range
		}
		return 5
	},
	"defer_order": func(a, b uint64) (r uint64) {
		defer func() { r = r*10 + 1 }()
		defer func() { r = r*10 + 2 }()
		return a % 7
	},
	"iface_dispatch": func(a, b uint64) uint64 {
		var sh shape = rect{a % 10, b % 10}
		t := sh.area()
		sh = &sq{a % 6}
		switch v := sh.(type) {
		case rect:
			return 1
		case *sq:
			return t + v.area() + v.s
		}
		return 0
	},
	"type_assert": func(a, b uint64) uint64 {
		var x interface{} = a
		if b%2 == 0 {
			x = "s"
		}
		if v, ok := x.(uint64); ok {
			return v + 1
		}
		s, _ := x.(string)
		return uint64(len(s))
	},
	"errors_is": func(a, b uint64) uint64 {
		_, err := chk(a)
		if errors.Is(err, errNeg) {
			return 1
		}
		v, _ := chk(b | 1 | 4)
		return v
	},
	"strings": func(a, b uint64) uint64 {
		s := "ab" + strconv.Itoa(int(a%100)) + strings.ToUpper("xy")
		t := s[1:3] + string([]byte{byte('a' + b%26)})
		r := uint64(len(s)) * 100
		for i, c := range t {
			r += uint64(c) * uint64(i+1)
		}
		if t < s {
			r++
		}
		if s == "ab7XY" {
			r += 5
		}
		return r
	},
	"unsafe_alias": func(a, b uint64) uint64 {
		// a string made from a []byte through unsafe shares its memory: later writes show through, also in a
		// substring; a converted copy does not change
		buf := []byte{byte(a), byte(b), byte(a >> 8), 'z'}
		s := *(*string)(unsafe.Pointer(&buf))
		sub := s[1:3]
		cp := string(buf)
		before := uint64(s[0]) + uint64(sub[1])<<8
		buf[0] = byte(b >> 8)
		buf[2] ^= 0x5a
		r := before ^ uint64(s[0])<<16 ^ uint64(sub[1])<<24 ^ uint64(cp[0])<<32 ^ uint64(cp[2])<<40
		if s == cp {
			r |= 1 << 60
		}
		if sub == cp[1:3] {
			r |= 1 << 61
		}
		return r
	},
	"binary_rt": func(a, b uint64) uint64 {
		buf := make([]byte, 16)
		binary.BigEndian.PutUint64(buf, a)
		binary.LittleEndian.PutUint32(buf[8:], uint32(b))
		binary.BigEndian.PutUint16(buf[12:], uint16(b>>3))
		return binary.BigEndian.Uint64(buf) ^ uint64(binary.LittleEndian.Uint32(buf[8:]))<<1 ^ uint64(binary.BigEndian.Uint16(buf[12:])) ^ uint64(buf[3])
	},
	"sort_slice": func(a, b uint64) uint64 {
		s := []uint64{a % 10, b % 10, 5, (a + b) % 10, 1}
		sort.Slice(s, func(i, j int) bool { return s[i] < s[j] })
		r := uint64(0)
		for _, v := range s {
			r = r*10 + v
		}
		return r
	},
	"strconv_rt": func(a, b uint64) uint64 {
		s := strconv.FormatUint(a, 10)
		v, err := strconv.ParseUint(s, 10, 64)
		if err != nil {
			return 1
		}
		w, err := strconv.ParseInt("-"+strconv.Itoa(int(b%1000)), 10, 16)
		if err != nil {
			return 2
		}
		return v + uint64(w)
	},
	"multi_return": func(a, b uint64) uint64 {
		f := func(x uint64) (uint64, bool, string) { return x * 2, x%2 == 0, "k" }
		v, ok, s := f(a)
		if ok {
			v += uint64(len(s))
		}
		return v + b
	},
	"goto_switch": func(a, b uint64) uint64 {
		r := uint64(0)
		switch {
		case a%5 == 0:
			r = 1
			fallthrough
		case b%5 == 0:
			r += 10
		default:
			r = 100
		}
		switch a % 3 {
		case 0, 1:
			r += 1000
		}
		return r
	},
	"nested_loops": func(a, b uint64) uint64 {
		r := uint64(0)
	outer:
		for i := uint64(0); i < 4; i++ {
			for j := uint64(0); j < 4; j++ {
				if (i+j+a)%5 == 0 {
					continue outer
				}
				if (i*j+b)%7 == 6 {
					break outer
				}
				r += i*4 + j
			}
		}
		return r
	},
	"ptr_alias": func(a, b uint64) uint64 {
		x, y := a, b
		p, q := &x, &y
		if a%2 == 0 {
			q = p
		}
		*q += 3
		return x*2 + y
	},
	"float_cmp": func(a, b uint64) uint64 {
		g := a % 1000
		if float64(g) >= float64(b%1000)*0.40 {
			return 1
		}
		return 2
	},
}
