package main

// vp* intrinsics: the harness-facing API. In the engine they create solver variables, path
// constraints and obligations; natively (replay) the same functions read a counterexample vector.

import (
	"fmt"

	"golang.org/x/tools/go/ssa"
)

var intrinsics map[string]stubFn

func init() {
	intrinsics = map[string]stubFn{}
	sym := func(kind string, w int) stubFn {
		return func(ex *Exec, c *frame, fn *ssa.Function, a []Value) Value {
			name := ex.mustStr(a[0], "vp name")
			return ex.newInput(kind, name, w)
		}
	}
	intrinsics["vpU64"] = sym("u64", 64)
	intrinsics["vpI64"] = sym("i64", 64)
	intrinsics["vpInt"] = sym("i64", 64)
	intrinsics["vpU32"] = sym("u32", 32)
	intrinsics["vpI32"] = sym("i32", 32)
	intrinsics["vpU16"] = sym("u16", 16)
	intrinsics["vpU8"] = sym("u8", 8)
	intrinsics["vpByte"] = sym("u8", 8)
	intrinsics["vpBool"] = sym("bool", 0)
	intrinsics["vpRange"] = func(ex *Exec, c *frame, fn *ssa.Function, a []Value) Value {
		name := ex.mustStr(a[0], "vp name")
		lo, hi := a[1].(*Term), a[2].(*Term)
		v := ex.newInput("i64", name, 64)
		ex.addAssume(ex.tc.And(ex.tc.Cmp(OSle, lo, v), ex.tc.Cmp(OSle, v, hi)))
		return v
	}
	intrinsics["vpChoose"] = func(ex *Exec, c *frame, fn *ssa.Function, a []Value) Value {
		name := ex.mustStr(a[0], "vp name")
		n := int(ex.concretize(a[1].(*Term), "vpChoose n"))
		k := ex.choose(n)
		ex.recordConcreteInput("choose", name, uint64(k))
		return ex.i64(int64(k))
	}
	intrinsics["vpBytes"] = func(ex *Exec, c *frame, fn *ssa.Function, a []Value) Value {
		name := ex.mustStr(a[0], "vp name")
		n := int(ex.concretize(a[1].(*Term), "vpBytes n"))
		b := make([]*Term, n)
		for i := range b {
			b[i] = ex.newInput("u8", fmt.Sprintf("%s[%d]", name, i), 8)
		}
		if n == 0 {
			return ex.mkDenseSlice([]Value{})
		}
		return ex.mkByteSlice(b)
	}
	intrinsics["vpString"] = func(ex *Exec, c *frame, fn *ssa.Function, a []Value) Value {
		name := ex.mustStr(a[0], "vp name")
		n := int(ex.concretize(a[1].(*Term), "vpString n"))
		b := make([]*Term, n)
		for i := range b {
			b[i] = ex.newInput("u8", fmt.Sprintf("%s[%d]", name, i), 8)
		}
		return &StrV{b: b}
	}
	intrinsics["vpAssume"] = func(ex *Exec, c *frame, fn *ssa.Function, a []Value) Value {
		ex.addAssume(a[0].(*Term))
		return nil
	}
	intrinsics["vpAssert"] = func(ex *Exec, c *frame, fn *ssa.Function, a []Value) Value {
		label := ex.mustStr(a[1], "vpAssert label")
		ex.assert(a[0].(*Term), label)
		return nil
	}
	intrinsics["vpReach"] = func(ex *Exec, c *frame, fn *ssa.Function, a []Value) Value {
		label := ex.mustStr(a[0], "vpReach label")
		ex.stats.Reached[label]++
		return nil
	}
	intrinsics["vpBound"] = func(ex *Exec, c *frame, fn *ssa.Function, a []Value) Value {
		name := ex.mustStr(a[0], "vpBound name")
		v, ok := ex.eng.opts.Bounds[name]
		if !ok {
			panic(engineErr("vpBound(%q): no such bound configured", name))
		}
		return ex.i64(v)
	}
	intrinsics["vpNote"] = func(ex *Exec, c *frame, fn *ssa.Function, a []Value) Value {
		if s, ok := a[0].(*StrV); ok {
			ex.notes = append(ex.notes, s.String())
		}
		return nil
	}
	intrinsics["vpAnd"] = func(ex *Exec, c *frame, fn *ssa.Function, a []Value) Value {
		return ex.tc.And(a[0].(*Term), a[1].(*Term))
	}
	intrinsics["vpOr"] = func(ex *Exec, c *frame, fn *ssa.Function, a []Value) Value {
		return ex.tc.Or(a[0].(*Term), a[1].(*Term))
	}
	intrinsics["vpImplies"] = func(ex *Exec, c *frame, fn *ssa.Function, a []Value) Value {
		return ex.tc.Or(ex.tc.Not(a[0].(*Term)), a[1].(*Term))
	}
	intrinsics["vpBytesEq"] = func(ex *Exec, c *frame, fn *ssa.Function, a []Value) Value {
		x, _ := a[0].(*SliceV)
		y, _ := a[1].(*SliceV)
		var xb, yb []*Term
		if !x.isNil() {
			xb = ex.bytesOf(x)
		}
		if !y.isNil() {
			yb = ex.bytesOf(y)
		}
		return ex.strEq(&StrV{b: xb}, &StrV{b: yb})
	}
	intrinsics["vpConcrete"] = func(ex *Exec, c *frame, fn *ssa.Function, a []Value) Value {
		t := a[0].(*Term)
		return ex.tc.Const(int(t.w), ex.concretize(t, "vpConcrete"))
	}
	intrinsics["vpClockSetMs"] = func(ex *Exec, c *frame, fn *ssa.Function, a []Value) Value {
		ex.effect()
		ex.clock = ex.tc.Bin(OMul, a[0].(*Term), ex.i64(1000000))
		return nil
	}
	intrinsics["vpClockAdvanceMs"] = func(ex *Exec, c *frame, fn *ssa.Function, a []Value) Value {
		ex.advanceClock(ex.tc.Bin(OMul, a[0].(*Term), ex.i64(1000000)))
		return nil
	}
	intrinsics["vpNowMs"] = func(ex *Exec, c *frame, fn *ssa.Function, a []Value) Value {
		return ex.divConst(ex.now(), 1000000)
	}
	intrinsics["vpMapOrder"] = func(ex *Exec, c *frame, fn *ssa.Function, a []Value) Value {
		ex.mapOrder = ex.mustStr(a[0], "vpMapOrder")
		return nil
	}
	intrinsics["vpGoMode"] = func(ex *Exec, c *frame, fn *ssa.Function, a []Value) Value {
		ex.goMode = ex.mustStr(a[0], "vpGoMode")
		return nil
	}
	intrinsics["vpSymbolic"] = func(ex *Exec, c *frame, fn *ssa.Function, a []Value) Value {
		return ex.tc.True
	}
}

// assert checks an obligation: pc ∧ ¬c must be unsat.
func (ex *Exec) assert(c *Term, label string) {
	ex.stats.Obligations++
	if c.IsConst() {
		if c.val != 0 {
			ex.stats.Discharged++
			ex.stats.Trivial++
			return
		}
		if !ex.replaying() {
			r := ex.sol.CheckSat()
			if r == Unsat {
				panic(pathEnd{"infeasible", "path infeasible at assertion"})
			}
			ex.reportViolation("assert", label, "assertion is false on this path", r == Sat)
		}
		panic(pathEnd{"violated", label})
	}
	if v, ok := ex.lookupKnown(c); ok && v {
		ex.stats.Discharged++
		ex.stats.Trivial++
		return
	}
	if ex.replaying() {
		// already checked by the run that discovered this prefix
		ex.stats.Obligations--
		ex.addPC(c)
		return
	}
	nc := ex.tc.Not(c)
	ex.sol.Define(nc)
	// declare every input before opening the scope: a declaration made inside it (by the model extraction of a
	// violation report) would be discarded by the pop while the term stays marked as defined
	for _, in := range ex.inputs {
		if in.term != nil {
			ex.sol.Define(in.term)
		}
	}
	ex.sol.send("(push 1)")
	ex.sol.send("(assert " + ref(nc) + ")")
	r := ex.sol.CheckSat()
	switch r {
	case Unsat:
		ex.stats.Discharged++
	case Sat:
		ex.reportViolation("assert", label, "", true)
	default:
		ex.stats.Unknown++
		ex.note("obligation %q: solver answered unknown", label)
	}
	ex.sol.send("(pop 1)")
	ex.effect()
	ex.addPC(c)
	if r == Sat {
		if ex.sol.CheckSat() == Unsat {
			panic(pathEnd{"violated", label})
		}
	}
}

func init() {
	intrinsics["vpObserve"] = func(ex *Exec, c *frame, fn *ssa.Function, a []Value) Value {
		name := ex.mustStr(a[0], "vpObserve name")
		obs, _ := ex.extra["observed"].([]ObsRec)
		t := a[1].(*Term)
		if t.w == 0 {
			t = ex.tc.Ite(t, ex.tc.Const(64, 1), ex.tc.Const(64, 0))
		}
		ex.extra["observed"] = append(obs, ObsRec{Name: name, term: t})
		return nil
	}
}

func init() {
	// vpLazyBytes(name, maxLen): a byte slice whose length (0..maxLen) and bytes are symbolic and are only
	// case-split / created when the code under test looks at them.
	intrinsics["vpLazyBytes"] = func(ex *Exec, c *frame, fn *ssa.Function, a []Value) Value {
		name := ex.mustStr(a[0], "vp name")
		maxLen := int64(ex.concretize(a[1].(*Term), "vpLazyBytes maxLen"))
		ln := ex.newInput("lazy", name+".len", 64)
		ex.addAssume(ex.tc.And(ex.tc.Cmp(OSle, ex.i64(0), ln), ex.tc.Cmp(OSle, ln, ex.i64(maxLen))))
		sp := &Sparse{cells: make(map[int64]*Value), length: ln}
		sp.mk = func(i int64) Value {
			return ex.newInput("lazy", fmt.Sprintf("%s[%d]", name, i), 8)
		}
		return &SliceV{sp: sp, len: ln, cap: ln}
	}
}

type goBlocked struct{}

func init() {
	// vpWaitUntil(cond): in the engine a false condition blocks the current deferred goroutine (it is re-queued and
	// restarted later); on the main thread it is a deadlock. Natively it polls.
	intrinsics["vpWaitUntil"] = func(ex *Exec, c *frame, fn *ssa.Function, a []Value) Value {
		r := ex.call(c, a[0], nil, 0)
		if ex.branch(r.(*Term)) {
			return nil
		}
		if ex.inPending > 0 {
			panic(goBlocked{})
		}
		panic(pathEnd{"block", "vpWaitUntil on the main thread: condition false (deadlock)"})
	}
	intrinsics["vpRunPending"] = func(ex *Exec, c *frame, fn *ssa.Function, a []Value) Value {
		ex.runPending()
		return nil
	}
}

func init() {
	intrinsics["vpSleepMs"] = func(ex *Exec, c *frame, fn *ssa.Function, a []Value) Value {
		ex.advanceClock(ex.tc.Bin(OMul, a[0].(*Term), ex.i64(1000000)))
		return nil
	}
}

func init() {
	// vpNeedConcrete(x): the path is outside the stated bound unless x is a constant here (used where the code under
	// test would push a symbolic instant through float seconds).
	intrinsics["vpNeedConcrete"] = func(ex *Exec, c *frame, fn *ssa.Function, a []Value) Value {
		if !a[0].(*Term).IsConst() {
			panic(pathEnd{"infeasible", "vpNeedConcrete: symbolic value (outside the bound)"})
		}
		return nil
	}
}

func init() {
	intrinsics["vpGo"] = func(ex *Exec, c *frame, fn *ssa.Function, a []Value) Value {
		ex.effect()
		ex.sched().spawnThread(a[0])
		return nil
	}
	intrinsics["vpJoin"] = func(ex *Exec, c *frame, fn *ssa.Function, a []Value) Value {
		ex.effect()
		ex.sched().join()
		return nil
	}
	intrinsics["vpYield"] = func(ex *Exec, c *frame, fn *ssa.Function, a []Value) Value {
		if ex.threads != nil {
			ex.effect()
			ex.threads.yield()
		}
		return nil
	}
}

func init() {
	// vpNoTimers(): virtual timers never fire in this execution; an operation that waits on a timer ends its path as
	// "block" (waiting), which the harness configuration may declare acceptable.
	intrinsics["vpNoTimers"] = func(ex *Exec, c *frame, fn *ssa.Function, a []Value) Value {
		ex.extra["noTimers"] = true
		return nil
	}
}
