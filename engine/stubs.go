package main

// Environment model: nondeterministic / contract stubs for the standard library and dependencies.
// Every stub that is hit is listed in the evidence of the run.

import (
	"fmt"
	"go/types"
	"math"
	"regexp"
	"sort"
	"strconv"
	"strings"

	"golang.org/x/tools/go/ssa"
)

type stubFn func(ex *Exec, caller *frame, fn *ssa.Function, args []Value) Value

const olricPath = "github.com/olric-data/olric"

func skipInit(path string) bool {
	// Package initialisers run lazily (on first access to one of the package's globals) and tolerantly. A few
	// packages are never initialised: their globals are runtime/OS state or large tables irrelevant to the code under
	// test, and their functions are stubbed or never reached.
	switch path {
	case "runtime", "reflect", "unicode", "os", "syscall", "net", "unsafe", "sync", "sync/atomic", "time", "math/rand", "crypto/rand",
		"log", "fmt", "testing", "flag", "net/http", "crypto/tls", "encoding/json", "regexp", "regexp/syntax", "unicode/utf8":
		return true
	}
	for _, pre := range []string{"runtime/", "internal/", "crypto/", "golang.org/x/sys", "github.com/hashicorp/memberlist", "github.com/hashicorp/go-", "github.com/armon/", "google.golang.org/", "golang.org/x/net"} {
		if strings.HasPrefix(path, pre) {
			return true
		}
	}
	return false
}

func (e *Engine) lookupStub(fn *ssa.Function, name string) stubFn {
	if st, ok := e.stubs[name]; ok {
		return st
	}
	if o := fn.Origin(); o != nil && o != fn {
		if st, ok := e.stubs[o.String()]; ok {
			return st
		}
	}
	if fn.Pkg != nil {
		path := fn.Pkg.Pkg.Path()
		if strings.HasPrefix(fn.Name(), "vp") && strings.HasPrefix(path, olricPath) {
			if st, ok := intrinsics[fn.Name()]; ok {
				return st
			}
		}
		switch path {
		case "log":
			return stubNoop
		case olricPath + "/pkg/flog":
			if fn.Name() == "V" {
				return func(ex *Exec, caller *frame, fn *ssa.Function, args []Value) Value { return ex.zeroResult(fn) }
			}
			if fn.Name() == "New" {
				return func(ex *Exec, caller *frame, fn *ssa.Function, args []Value) Value { return ex.zeroResult(fn) }
			}
			return stubNoop
		}
	}
	return nil
}

func stubNoop(ex *Exec, caller *frame, fn *ssa.Function, args []Value) Value {
	return ex.zeroResult(fn)
}

// ---------------------------------------------------------------- helpers

func (ex *Exec) goStr(v Value) (string, bool) {
	s, ok := v.(*StrV)
	if !ok {
		return "", false
	}
	return s.conc()
}

func (ex *Exec) mustStr(v Value, what string) string {
	s, ok := ex.goStr(v)
	if !ok {
		panic(engineErr("%s: symbolic string unsupported here", what))
	}
	return s
}

func (ex *Exec) errorValue(msg string) Value {
	// errors.New(msg) via interpretation of the real constructor
	p := ex.eng.prog.ImportedPackage("errors")
	return ex.callSSA(nil, p.Func("New"), []Value{ex.mkStr(msg)}, nil)
}

func (ex *Exec) nilError() Value { return IfaceV{} }

// namedType finds a named type in a loaded package.
func (e *Engine) namedType(pkg, name string) types.Type {
	p := e.pkgByPath[pkg]
	if p == nil {
		panic(engineErr("package %s not loaded", pkg))
	}
	t := p.Type(name)
	if t == nil {
		panic(engineErr("type %s.%s not found", pkg, name))
	}
	return t.Type()
}

// toGo converts a concrete interface-boxed value to a native Go value for formatting.
func (ex *Exec) toGo(v Value) (interface{}, bool) {
	switch x := v.(type) {
	case IfaceV:
		if x.t == nil {
			return nil, true
		}
		switch u := x.t.Underlying().(type) {
		case *types.Basic:
			switch t := x.v.(type) {
			case *Term:
				if !t.IsConst() {
					return nil, false
				}
				switch {
				case u.Info()&types.IsBoolean != 0:
					return t.val != 0, true
				case u.Info()&types.IsFloat != 0:
					return t.FVal(), true
				case u.Info()&types.IsUnsigned != 0:
					return t.val, true
				default:
					return t.SVal(), true
				}
			case *StrV:
				s, ok := t.conc()
				return s, ok
			}
		case *types.Slice:
			if s, ok := x.v.(*SliceV); ok && isByteSliceType(x.t) {
				if s.isNil() {
					return []byte(nil), true
				}
				bs := ex.bytesOf(s)
				out := make([]byte, len(bs))
				for i, b := range bs {
					if !b.IsConst() {
						return nil, false
					}
					out[i] = byte(b.val)
				}
				return out, true
			}
		}
		// error / Stringer: render through Error()/String()
		for _, m := range []string{"Error", "String"} {
			if f := ex.eng.lookupMethod(x.t, nil, m); f != nil && f.Signature.Params().Len() == 0 {
				var res Value
				okc := true
				func() {
					defer func() {
						if r := recover(); r != nil {
							if _, isE := r.(engineError); isE {
								okc = false
								return
							}
							panic(r)
						}
					}()
					res = ex.callSSA(nil, f, []Value{x.v}, nil)
				}()
				if okc {
					if s, ok := res.(*StrV); ok {
						if c, ok := s.conc(); ok {
							return c, true
						}
					}
				}
				return "<" + typeString(x.t) + ">", true
			}
		}
		return "<" + typeString(x.t) + ">", true
	}
	return nil, false
}

func (ex *Exec) sprintf(format Value, argsV Value) *StrV {
	f, ok := ex.goStr(format)
	if !ok {
		return ex.mkStr("<fmt:symbolic-format>")
	}
	var gargs []interface{}
	if s, _ := argsV.(*SliceV); !s.isNil() {
		n := ex.sliceLen(s)
		for i := int64(0); i < n; i++ {
			g, ok := ex.toGo(*s.elem(i))
			if !ok {
				g = "<sym>"
			}
			gargs = append(gargs, g)
		}
	}
	f = strings.ReplaceAll(f, "%w", "%v")
	return ex.mkStr(fmt.Sprintf(f, gargs...))
}

// unwrapChain implements errors.Is on the interpreter's error object graph.
func (ex *Exec) errorsIs(err, target Value) bool {
	e, _ := err.(IfaceV)
	t, _ := target.(IfaceV)
	if e.t == nil || t.t == nil {
		return e.t == nil && t.t == nil
	}
	for depth := 0; depth < 32; depth++ {
		if e.t == nil {
			return false
		}
		if comparableType(e.t) && types.Identical(e.t, t.t) {
			if eq := ex.equal(e.t, e.v, t.v); eq.IsConst() && eq.val != 0 {
				return true
			}
		}
		if m := ex.eng.lookupMethod(e.t, nil, "Is"); m != nil && m.Signature.Params().Len() == 1 {
			r := ex.callSSA(nil, m, []Value{e.v, t}, nil)
			if rt, ok := r.(*Term); ok && ex.branch(rt) {
				return true
			}
		}
		m := ex.eng.lookupMethod(e.t, nil, "Unwrap")
		if m == nil {
			// pkg/errors: Cause
			return false
		}
		r := ex.callSSA(nil, m, []Value{e.v}, nil)
		switch rv := r.(type) {
		case IfaceV:
			e = rv
		case *SliceV: // Unwrap() []error
			if rv.isNil() {
				return false
			}
			n := ex.sliceLen(rv)
			for i := int64(0); i < n; i++ {
				if ex.errorsIs(*rv.elem(i), target) {
					return true
				}
			}
			return false
		default:
			return false
		}
	}
	return false
}

func comparableType(t types.Type) bool { return types.Comparable(t) }

func (ex *Exec) deepCopy(v Value, seen map[interface{}]Value) Value {
	switch x := v.(type) {
	case StructV:
		n := make(StructV, len(x))
		for i := range x {
			n[i] = ex.deepCopy(x[i], seen)
		}
		return n
	case ArrV:
		n := make(ArrV, len(x))
		for i := range x {
			n[i] = ex.deepCopy(x[i], seen)
		}
		return n
	case *SliceV:
		if x.isNil() {
			return x
		}
		n := ex.sliceLen(x)
		d := make([]Value, n)
		for i := int64(0); i < n; i++ {
			d[i] = ex.deepCopy(*x.elem(i), seen)
		}
		r := ex.mkDenseSlice(d)
		r.tok = x.tok
		r.num = x.num
		return r
	case *MapV:
		if x == nil {
			return x
		}
		if c, ok := seen[x]; ok {
			return c
		}
		m := &MapV{t: x.t}
		seen[x] = m
		for _, e := range x.ents {
			if e.live {
				p := new(Value)
				*p = ex.deepCopy(*e.v, seen)
				m.ents = append(m.ents, &mapEnt{k: ex.deepCopy(e.k, seen), v: p, live: true})
			}
		}
		return m
	case *Value:
		if x == nil {
			return x
		}
		if c, ok := seen[x]; ok {
			return c
		}
		p := new(Value)
		seen[x] = p
		*p = ex.deepCopy(*x, seen)
		return p
	case IfaceV:
		return IfaceV{t: x.t, v: ex.deepCopy(x.v, seen)}
	}
	return v
}

// ---------------------------------------------------------------- sync model

func ptrStruct(v Value) StructV {
	p, _ := v.(*Value)
	if p == nil {
		return nil
	}
	s, _ := (*p).(StructV)
	return s
}

func (ex *Exec) mutexLock(args []Value, write bool, what string) {
	s := ptrStruct(args[0])
	if s == nil {
		ex.throw("nil mutex")
	}
	ex.effect()
	if ex.threads != nil {
		ex.threads.lock(ex, s, write)
		return
	}
	st := s[0].(*Term)
	// field 0 holds: 0 free, -1 write locked, n>0 readers (sequential lock discipline check)
	if st.w != 32 && st.w != 64 {
		// RWMutex: field 0 is the embedded Mutex struct; keep state in field 1 (writerSem)
		panic(engineErr("mutex layout unexpected"))
	}
	v := st.SVal()
	if write {
		if v != 0 {
			ex.reportViolation("deadlock", "deadlock", what+": lock already held in sequential execution", true)
			panic(pathEnd{"deadlock", what})
		}
		s[0] = ex.tc.Const(int(st.w), uint64(^uint64(0)))
	} else {
		if v < 0 {
			ex.reportViolation("deadlock", "deadlock", what+": read lock while write-locked in sequential execution", true)
			panic(pathEnd{"deadlock", what})
		}
		s[0] = ex.tc.Const(int(st.w), uint64(v+1))
	}
}

func (ex *Exec) mutexUnlock(args []Value, write bool, what string) {
	s := ptrStruct(args[0])
	ex.effect()
	if ex.threads != nil {
		ex.threads.unlock(ex, s, write)
		return
	}
	st := s[0].(*Term)
	v := st.SVal()
	if write {
		if v != -1 {
			ex.throw("sync: unlock of unlocked mutex")
		}
		s[0] = ex.tc.Const(int(st.w), 0)
	} else {
		if v <= 0 {
			ex.throw("sync: RUnlock of unlocked RWMutex")
		}
		s[0] = ex.tc.Const(int(st.w), uint64(v-1))
	}
}

// rwState returns the struct used to hold RWMutex state: we use the embedded w Mutex (field 0).
func rwInner(args []Value) []Value {
	s := ptrStruct(args[0])
	if s == nil {
		return nil
	}
	inner, _ := s[0].(StructV)
	p := new(Value)
	*p = inner
	return []Value{p}
}

// ---------------------------------------------------------------- native models

type roar struct{ set []uint64 }

func (r *roar) add(v uint64) {
	i := sort.Search(len(r.set), func(i int) bool { return r.set[i] >= v })
	if i < len(r.set) && r.set[i] == v {
		return
	}
	r.set = append(r.set, 0)
	copy(r.set[i+1:], r.set[i:])
	r.set[i] = v
}

func (r *roar) remove(v uint64) {
	i := sort.Search(len(r.set), func(i int) bool { return r.set[i] >= v })
	if i < len(r.set) && r.set[i] == v {
		r.set = append(r.set[:i], r.set[i+1:]...)
	}
}

type roarIter struct {
	r   *roar
	pos int
}

func (ex *Exec) roarOf(v Value) *roar {
	p, _ := v.(*Value)
	if p == nil {
		ex.throw("nil roaring bitmap")
	}
	if o, ok := (*p).(*Opaque); ok {
		return o.data.(*roar)
	}
	r := &roar{}
	*p = &Opaque{kind: "roaring64", data: r}
	return r
}

func (ex *Exec) concU64(v Value, what string) uint64 {
	return ex.concretize(v.(*Term), what)
}

// ---------------------------------------------------------------- the table

func buildStubs() map[string]stubFn {
	m := map[string]stubFn{}

	// ---- errors / fmt
	m["errors.Is"] = func(ex *Exec, c *frame, fn *ssa.Function, a []Value) Value {
		return ex.tc.Bool(ex.errorsIs(a[0], a[1]))
	}
	m["github.com/pkg/errors.Is"] = m["errors.Is"]
	// errors.As(err, target): target is a non-nil pointer to a variable of interface or concrete type T; the first
	// error in err's chain (Unwrap() error) whose dynamic type implements / is T is stored there
	m["errors.As"] = func(ex *Exec, c *frame, fn *ssa.Function, a []Value) Value {
		e, _ := a[0].(IfaceV)
		tg, _ := a[1].(IfaceV)
		pt, isPtr := tg.t.(*types.Pointer)
		dst, _ := tg.v.(*Value)
		if !isPtr || dst == nil {
			ex.throw("errors: target must be a non-nil pointer")
		}
		T := pt.Elem()
		for depth := 0; depth < 32 && e.t != nil; depth++ {
			if it, isI := T.Underlying().(*types.Interface); isI {
				if types.Implements(e.t, it) {
					*dst = e
					return ex.tc.True
				}
			} else if types.Identical(e.t, T) {
				*dst = e.v
				return ex.tc.True
			}
			if am := ex.eng.lookupMethod(e.t, nil, "As"); am != nil {
				panic(engineErr("errors.As: custom As method not modelled"))
			}
			um := ex.eng.lookupMethod(e.t, nil, "Unwrap")
			if um == nil {
				break
			}
			r, ok := ex.callSSA(nil, um, []Value{e.v}, nil).(IfaceV)
			if !ok {
				break
			}
			e = r
		}
		return ex.tc.False
	}
	m["github.com/pkg/errors.As"] = m["errors.As"]
	m["github.com/pkg/errors.callers"] = func(ex *Exec, c *frame, fn *ssa.Function, a []Value) Value {
		return (*Value)(nil)
	}
	m["errors.Unwrap"] = func(ex *Exec, c *frame, fn *ssa.Function, a []Value) Value {
		e := a[0].(IfaceV)
		if e.t == nil {
			return IfaceV{}
		}
		mm := ex.eng.lookupMethod(e.t, nil, "Unwrap")
		if mm == nil {
			return IfaceV{}
		}
		r := ex.callSSA(nil, mm, []Value{e.v}, nil)
		if ri, ok := r.(IfaceV); ok {
			return ri
		}
		return IfaceV{}
	}
	m["fmt.Errorf"] = func(ex *Exec, c *frame, fn *ssa.Function, a []Value) Value {
		msg := ex.sprintf(a[0], a[1])
		// find wrapped error for %w
		var wrapped Value = IfaceV{}
		if f, ok := ex.goStr(a[0]); ok && strings.Contains(f, "%w") {
			if s, _ := a[1].(*SliceV); !s.isNil() {
				n := ex.sliceLen(s)
				for i := int64(0); i < n; i++ {
					if iv, ok := (*s.elem(i)).(IfaceV); ok && iv.t != nil {
						if ex.eng.lookupMethod(iv.t, nil, "Error") != nil {
							wrapped = iv
						}
					}
				}
			}
		}
		wt := ex.eng.namedType("fmt", "wrapError")
		p := new(Value)
		*p = StructV{msg, wrapped}
		return IfaceV{t: types.NewPointer(wt), v: p}
	}
	m["fmt.Sprintf"] = func(ex *Exec, c *frame, fn *ssa.Function, a []Value) Value {
		return ex.sprintf(a[0], a[1])
	}
	m["fmt.Sprint"] = func(ex *Exec, c *frame, fn *ssa.Function, a []Value) Value {
		var parts []string
		if s, _ := a[0].(*SliceV); !s.isNil() {
			n := ex.sliceLen(s)
			for i := int64(0); i < n; i++ {
				g, ok := ex.toGo(*s.elem(i))
				if !ok {
					g = "<sym>"
				}
				parts = append(parts, fmt.Sprint(g))
			}
		}
		return ex.mkStr(strings.Join(parts, " "))
	}
	for _, n := range []string{"fmt.Println", "fmt.Printf", "fmt.Print", "fmt.Fprintf", "fmt.Fprintln", "fmt.Fprint"} {
		m[n] = stubNoop
	}

	// ---- reflect (only for messages)
	m["reflect.TypeOf"] = func(ex *Exec, c *frame, fn *ssa.Function, a []Value) Value { return IfaceV{} }

	// ---- runtime
	m["runtime.Gosched"] = stubNoop
	m["runtime.KeepAlive"] = stubNoop
	m["runtime.SetFinalizer"] = stubNoop
	m["runtime.GC"] = stubNoop
	m["runtime.NumCPU"] = func(ex *Exec, c *frame, fn *ssa.Function, a []Value) Value { return ex.i64(4) }
	m["runtime.GOMAXPROCS"] = func(ex *Exec, c *frame, fn *ssa.Function, a []Value) Value { return ex.i64(4) }

	// ---- sync
	m["(*sync.Mutex).Lock"] = func(ex *Exec, c *frame, fn *ssa.Function, a []Value) Value {
		ex.mutexLock(a, true, "Mutex.Lock")
		return nil
	}
	m["(*sync.Mutex).Unlock"] = func(ex *Exec, c *frame, fn *ssa.Function, a []Value) Value {
		ex.mutexUnlock(a, true, "Mutex.Unlock")
		return nil
	}
	m["(*sync.Mutex).TryLock"] = func(ex *Exec, c *frame, fn *ssa.Function, a []Value) Value {
		s := ptrStruct(a[0])
		if ex.threads != nil {
			return ex.tc.Bool(ex.threads.tryLock(ex, s))
		}
		st := s[0].(*Term)
		if st.SVal() != 0 {
			return ex.tc.False
		}
		ex.mutexLock(a, true, "Mutex.TryLock")
		return ex.tc.True
	}
	m["(*sync.RWMutex).Lock"] = func(ex *Exec, c *frame, fn *ssa.Function, a []Value) Value {
		ex.mutexLock(rwInner(a), true, "RWMutex.Lock")
		return nil
	}
	m["(*sync.RWMutex).Unlock"] = func(ex *Exec, c *frame, fn *ssa.Function, a []Value) Value {
		ex.mutexUnlock(rwInner(a), true, "RWMutex.Unlock")
		return nil
	}
	m["(*sync.RWMutex).RLock"] = func(ex *Exec, c *frame, fn *ssa.Function, a []Value) Value {
		ex.mutexLock(rwInner(a), false, "RWMutex.RLock")
		return nil
	}
	m["(*sync.RWMutex).RUnlock"] = func(ex *Exec, c *frame, fn *ssa.Function, a []Value) Value {
		ex.mutexUnlock(rwInner(a), false, "RWMutex.RUnlock")
		return nil
	}
	m["(*sync.WaitGroup).Add"] = func(ex *Exec, c *frame, fn *ssa.Function, a []Value) Value { return nil }
	m["(*sync.WaitGroup).Done"] = func(ex *Exec, c *frame, fn *ssa.Function, a []Value) Value { return nil }
	m["(*sync.WaitGroup).Wait"] = func(ex *Exec, c *frame, fn *ssa.Function, a []Value) Value {
		ex.runPending()
		return nil
	}
	m["(*sync.Once).Do"] = func(ex *Exec, c *frame, fn *ssa.Function, a []Value) Value {
		s := ptrStruct(a[0])
		// Once{done atomic.Uint32 (struct), m Mutex}: flag kept by replacing field 0 with a Term
		if t, ok := s[0].(*Term); ok && t.val == 1 {
			return nil
		}
		s[0] = ex.tc.Const(32, 1)
		ex.effect()
		ex.call(c, a[1], nil, 0)
		return nil
	}
	// sync.Map: model as association list stored in an Opaque in field 0
	type smap struct{ m *MapV }
	getSM := func(ex *Exec, v Value) *MapV {
		s := ptrStruct(v)
		if s == nil {
			ex.throw("nil sync.Map")
		}
		if o, ok := s[0].(*Opaque); ok {
			return o.data.(*smap).m
		}
		anyT := types.NewInterfaceType(nil, nil)
		mm := &MapV{t: types.NewMap(anyT, anyT)}
		s[0] = &Opaque{kind: "sync.Map", data: &smap{mm}}
		return mm
	}
	m["(*sync.Map).Load"] = func(ex *Exec, c *frame, fn *ssa.Function, a []Value) Value {
		mm := getSM(ex, a[0])
		if e := ex.mapFind(mm, a[1]); e != nil {
			return Tuple{*e.v, ex.tc.True}
		}
		return Tuple{IfaceV{}, ex.tc.False}
	}
	m["(*sync.Map).Store"] = func(ex *Exec, c *frame, fn *ssa.Function, a []Value) Value {
		ex.effect()
		ex.mapInsert(getSM(ex, a[0]), a[1], a[2])
		return nil
	}
	m["(*sync.Map).LoadOrStore"] = func(ex *Exec, c *frame, fn *ssa.Function, a []Value) Value {
		mm := getSM(ex, a[0])
		if e := ex.mapFind(mm, a[1]); e != nil {
			return Tuple{*e.v, ex.tc.True}
		}
		ex.effect()
		ex.mapInsert(mm, a[1], a[2])
		return Tuple{a[2], ex.tc.False}
	}
	m["(*sync.Map).LoadAndDelete"] = func(ex *Exec, c *frame, fn *ssa.Function, a []Value) Value {
		mm := getSM(ex, a[0])
		if e := ex.mapFind(mm, a[1]); e != nil {
			v := *e.v
			ex.effect()
			ex.mapDelete(mm, a[1])
			return Tuple{v, ex.tc.True}
		}
		return Tuple{IfaceV{}, ex.tc.False}
	}
	m["(*sync.Map).Delete"] = func(ex *Exec, c *frame, fn *ssa.Function, a []Value) Value {
		ex.effect()
		ex.mapDelete(getSM(ex, a[0]), a[1])
		return nil
	}
	m["(*sync.Map).Range"] = func(ex *Exec, c *frame, fn *ssa.Function, a []Value) Value {
		mm := getSM(ex, a[0])
		ents := append([]*mapEnt{}, mm.ents...)
		for _, e := range ents {
			if !e.live {
				continue
			}
			r := ex.call(c, a[1], []Value{e.k, *e.v}, 0)
			if !ex.branch(r.(*Term)) {
				break
			}
		}
		return nil
	}
	// sync.Pool: the most recently Put object is handed out again (LIFO reuse - one of the behaviours the runtime
	// is allowed to show and the one that exposes use-after-Put aliasing); an empty pool calls New
	m["(*sync.Pool).Get"] = func(ex *Exec, c *frame, fn *ssa.Function, a []Value) Value {
		key, _ := a[0].(*Value)
		if st := ex.pools[key]; len(st) > 0 {
			v := st[len(st)-1]
			ex.pools[key] = st[:len(st)-1]
			return v
		}
		s := ptrStruct(a[0])
		// New is the last field
		newFn := s[len(s)-1]
		if newFn == nil {
			return IfaceV{}
		}
		return ex.call(c, newFn, nil, 0)
	}
	m["(*sync.Pool).Put"] = func(ex *Exec, c *frame, fn *ssa.Function, a []Value) Value {
		key, _ := a[0].(*Value)
		if iv, ok := a[1].(IfaceV); ok && iv.t == nil {
			return nil
		}
		if ex.pools == nil {
			ex.pools = map[*Value][]Value{}
		}
		ex.pools[key] = append(ex.pools[key], a[1])
		ex.effect()
		return nil
	}

	// ---- sync/atomic (typed values are structs with the value in the last scalar field)
	atomicCell := func(ex *Exec, v Value) *Value {
		p, _ := v.(*Value)
		if p == nil {
			ex.throw("nil atomic")
		}
		if s, ok := (*p).(StructV); ok {
			// atomic.Int32{_ noCopy; v int32}, atomic.Int64{_ noCopy; _ align64; v int64}, atomic.Bool{_ noCopy; v uint32}
			return &s[len(s)-1]
		}
		return p
	}
	for _, ty := range []string{"Int32", "Int64", "Uint32", "Uint64", "Uintptr"} {
		ty := ty
		m["(*sync/atomic."+ty+").Load"] = func(ex *Exec, c *frame, fn *ssa.Function, a []Value) Value {
			return *atomicCell(ex, a[0])
		}
		m["(*sync/atomic."+ty+").Store"] = func(ex *Exec, c *frame, fn *ssa.Function, a []Value) Value {
			ex.effect()
			*atomicCell(ex, a[0]) = a[1]
			return nil
		}
		m["(*sync/atomic."+ty+").Add"] = func(ex *Exec, c *frame, fn *ssa.Function, a []Value) Value {
			ex.effect()
			p := atomicCell(ex, a[0])
			*p = ex.tc.Bin(OAdd, (*p).(*Term), a[1].(*Term))
			return *p
		}
		m["(*sync/atomic."+ty+").Swap"] = func(ex *Exec, c *frame, fn *ssa.Function, a []Value) Value {
			ex.effect()
			p := atomicCell(ex, a[0])
			old := *p
			*p = a[1]
			return old
		}
		m["(*sync/atomic."+ty+").CompareAndSwap"] = func(ex *Exec, c *frame, fn *ssa.Function, a []Value) Value {
			ex.effect()
			p := atomicCell(ex, a[0])
			if ex.branch(ex.tc.Eq((*p).(*Term), a[1].(*Term))) {
				*p = a[2]
				return ex.tc.True
			}
			return ex.tc.False
		}
		m["sync/atomic.Load"+ty] = func(ex *Exec, c *frame, fn *ssa.Function, a []Value) Value {
			p, _ := a[0].(*Value)
			if p == nil {
				ex.throw("nil atomic pointer")
			}
			return *p
		}
		m["sync/atomic.Store"+ty] = func(ex *Exec, c *frame, fn *ssa.Function, a []Value) Value {
			ex.effect()
			p, _ := a[0].(*Value)
			if p == nil {
				ex.throw("nil atomic pointer")
			}
			*p = a[1]
			return nil
		}
		m["sync/atomic.Add"+ty] = func(ex *Exec, c *frame, fn *ssa.Function, a []Value) Value {
			ex.effect()
			p, _ := a[0].(*Value)
			if p == nil {
				ex.throw("nil atomic pointer")
			}
			*p = ex.tc.Bin(OAdd, (*p).(*Term), a[1].(*Term))
			return *p
		}
		m["sync/atomic.Swap"+ty] = func(ex *Exec, c *frame, fn *ssa.Function, a []Value) Value {
			ex.effect()
			p, _ := a[0].(*Value)
			old := *p
			*p = a[1]
			return old
		}
		m["sync/atomic.CompareAndSwap"+ty] = func(ex *Exec, c *frame, fn *ssa.Function, a []Value) Value {
			ex.effect()
			p, _ := a[0].(*Value)
			if ex.branch(ex.tc.Eq((*p).(*Term), a[1].(*Term))) {
				*p = a[2]
				return ex.tc.True
			}
			return ex.tc.False
		}
	}
	m["(*sync/atomic.Bool).Load"] = func(ex *Exec, c *frame, fn *ssa.Function, a []Value) Value {
		t := (*atomicCell(ex, a[0])).(*Term)
		return ex.tc.Not(ex.tc.Eq(t, ex.tc.Const(int(t.w), 0)))
	}
	m["(*sync/atomic.Bool).Store"] = func(ex *Exec, c *frame, fn *ssa.Function, a []Value) Value {
		ex.effect()
		p := atomicCell(ex, a[0])
		w := int((*p).(*Term).w)
		*p = ex.tc.Ite(a[1].(*Term), ex.tc.Const(w, 1), ex.tc.Const(w, 0))
		return nil
	}
	m["(*sync/atomic.Value).Load"] = func(ex *Exec, c *frame, fn *ssa.Function, a []Value) Value {
		return *atomicCell(ex, a[0])
	}
	m["(*sync/atomic.Value).Store"] = func(ex *Exec, c *frame, fn *ssa.Function, a []Value) Value {
		ex.effect()
		*atomicCell(ex, a[0]) = a[1]
		return nil
	}

	// ---- encoding/binary
	for _, e := range []struct {
		name string
		big  bool
	}{{"bigEndian", true}, {"littleEndian", false}} {
		big := e.big
		for _, n := range []int{2, 4, 8} {
			n := n
			w := n * 8
			m[fmt.Sprintf("(encoding/binary.%s).Uint%d", e.name, w)] = func(ex *Exec, c *frame, fn *ssa.Function, a []Value) Value {
				s := a[1].(*SliceV)
				if s.isNil() || !ex.branch(ex.tc.Cmp(OSle, ex.i64(int64(n)), s.len)) {
					ex.throw(fmt.Sprintf("index out of range [%d] (binary.Uint%d)", n-1, w))
				}
				var acc *Term
				for i := 0; i < n; i++ {
					k := i
					if !big {
						k = n - 1 - i
					}
					b := (*s.elem(int64(k))).(*Term)
					if acc == nil {
						acc = b
					} else {
						acc = ex.tc.Concat(acc, b)
					}
				}
				return acc
			}
			m[fmt.Sprintf("(encoding/binary.%s).PutUint%d", e.name, w)] = func(ex *Exec, c *frame, fn *ssa.Function, a []Value) Value {
				s := a[1].(*SliceV)
				if s.isNil() || !ex.branch(ex.tc.Cmp(OSle, ex.i64(int64(n)), s.len)) {
					ex.throw(fmt.Sprintf("index out of range [%d] (binary.PutUint%d)", n-1, w))
				}
				ex.effect()
				v := a[2].(*Term)
				for i := 0; i < n; i++ {
					var b *Term
					if big {
						sh := (n - 1 - i) * 8
						b = ex.tc.Extract(sh+7, sh, v)
					} else {
						b = ex.tc.Extract(i*8+7, i*8, v)
					}
					*s.elem(int64(i)) = b
				}
				return nil
			}
		}
	}

	// ---- bytes / strings
	m["bytes.Equal"] = func(ex *Exec, c *frame, fn *ssa.Function, a []Value) Value {
		x, _ := a[0].(*SliceV)
		y, _ := a[1].(*SliceV)
		var xb, yb []*Term
		if !x.isNil() {
			xb = ex.bytesOf(x)
		}
		if !y.isNil() {
			yb = ex.bytesOf(y)
		}
		return ex.strEq(&StrV{b: xb}, &StrV{b: yb})
	}
	caseMap := func(upper bool) stubFn {
		return func(ex *Exec, c *frame, fn *ssa.Function, a []Value) Value {
			s := a[0].(*StrV)
			out := make([]*Term, len(s.b))
			tc := ex.tc
			for i, b := range s.b {
				if b.IsConst() {
					ch := byte(b.val)
					if ch >= 0x80 {
						if cs, ok := s.conc(); ok {
							if upper {
								return ex.mkStr(strings.ToUpper(cs))
							}
							return ex.mkStr(strings.ToLower(cs))
						}
						panic(pathEnd{"bound", "case mapping of non-ASCII with symbolic bytes"})
					}
					if upper && ch >= 'a' && ch <= 'z' {
						ch -= 32
					} else if !upper && ch >= 'A' && ch <= 'Z' {
						ch += 32
					}
					out[i] = tc.Const(8, uint64(ch))
					continue
				}
				// symbolic byte: assumed ASCII (stated bound: keyword-like arguments are ASCII)
				ex.addAssume(tc.Cmp(OUlt, b, tc.Const(8, 0x80)))
				ex.note("assumption: symbolic bytes passed to strings.ToUpper/ToLower are ASCII")
				if upper {
					isLower := tc.And(tc.Cmp(OUle, tc.Const(8, 'a'), b), tc.Cmp(OUle, b, tc.Const(8, 'z')))
					out[i] = tc.Ite(isLower, tc.Bin(OSub, b, tc.Const(8, 32)), b)
				} else {
					isUpper := tc.And(tc.Cmp(OUle, tc.Const(8, 'A'), b), tc.Cmp(OUle, b, tc.Const(8, 'Z')))
					out[i] = tc.Ite(isUpper, tc.Bin(OAdd, b, tc.Const(8, 32)), b)
				}
			}
			return &StrV{b: out}
		}
	}
	m["strings.ToUpper"] = caseMap(true)
	m["strings.ToLower"] = caseMap(false)
	m["strings.EqualFold"] = func(ex *Exec, c *frame, fn *ssa.Function, a []Value) Value {
		x := caseMap(false)(ex, c, fn, []Value{a[0]}).(*StrV)
		y := caseMap(false)(ex, c, fn, []Value{a[1]}).(*StrV)
		return ex.strEq(x, y)
	}
	concreteStr2 := func(name string, f func(a, b string) Value) {
		m[name] = func(ex *Exec, c *frame, fn *ssa.Function, a []Value) Value {
			return f(ex.mustStr(a[0], name), ex.mustStr(a[1], name))
		}
	}
	_ = concreteStr2
	m["strings.HasPrefix"] = func(ex *Exec, c *frame, fn *ssa.Function, a []Value) Value {
		s, p := a[0].(*StrV), a[1].(*StrV)
		if len(s.b) < len(p.b) {
			return ex.tc.False
		}
		return ex.strEq(&StrV{b: s.b[:len(p.b)]}, p)
	}
	m["strings.HasSuffix"] = func(ex *Exec, c *frame, fn *ssa.Function, a []Value) Value {
		s, p := a[0].(*StrV), a[1].(*StrV)
		if len(s.b) < len(p.b) {
			return ex.tc.False
		}
		return ex.strEq(&StrV{b: s.b[len(s.b)-len(p.b):]}, p)
	}
	m["strings.TrimPrefix"] = func(ex *Exec, c *frame, fn *ssa.Function, a []Value) Value {
		s, p := a[0].(*StrV), a[1].(*StrV)
		if len(s.b) < len(p.b) {
			return s
		}
		if ex.branch(ex.strEq(&StrV{b: s.b[:len(p.b)]}, p)) {
			return &StrV{b: s.b[len(p.b):]}
		}
		return s
	}
	m["strings.Contains"] = func(ex *Exec, c *frame, fn *ssa.Function, a []Value) Value {
		return ex.tc.Bool(strings.Contains(ex.mustStr(a[0], "strings.Contains"), ex.mustStr(a[1], "strings.Contains")))
	}
	m["strings.Index"] = func(ex *Exec, c *frame, fn *ssa.Function, a []Value) Value {
		return ex.i64(int64(strings.Index(ex.mustStr(a[0], "strings.Index"), ex.mustStr(a[1], "strings.Index"))))
	}
	// index of a byte in a string: exact for symbolic content too (first position whose byte equals c, decided
	// position by position)
	idxByte := func(ex *Exec, c *frame, fn *ssa.Function, a []Value) Value {
		var bs []*Term
		switch x := a[0].(type) {
		case *StrV:
			bs = x.b
		case *SliceV:
			if !x.isNil() {
				bs = ex.bytesOf(x)
			}
		}
		ch := a[1].(*Term)
		for i, b := range bs {
			if ex.branch(ex.tc.Eq(b, ch)) {
				return ex.i64(int64(i))
			}
		}
		return ex.i64(-1)
	}
	m["internal/bytealg.IndexByteString"] = idxByte
	m["internal/bytealg.IndexByte"] = idxByte
	m["strings.IndexByte"] = idxByte
	m["bytes.IndexByte"] = idxByte
	m["strings.TrimSpace"] = func(ex *Exec, c *frame, fn *ssa.Function, a []Value) Value {
		return ex.mkStr(strings.TrimSpace(ex.mustStr(a[0], "strings.TrimSpace")))
	}
	m["strings.Split"] = func(ex *Exec, c *frame, fn *ssa.Function, a []Value) Value {
		parts := strings.Split(ex.mustStr(a[0], "strings.Split"), ex.mustStr(a[1], "strings.Split"))
		d := make([]Value, len(parts))
		for i, p := range parts {
			d[i] = ex.mkStr(p)
		}
		return ex.mkDenseSlice(d)
	}
	m["strings.Join"] = func(ex *Exec, c *frame, fn *ssa.Function, a []Value) Value {
		s, _ := a[0].(*SliceV)
		sep := a[1].(*StrV)
		var out []*Term
		if !s.isNil() {
			n := ex.sliceLen(s)
			for i := int64(0); i < n; i++ {
				if i > 0 {
					out = append(out, sep.b...)
				}
				out = append(out, (*s.elem(i)).(*StrV).b...)
			}
		}
		return &StrV{b: out}
	}
	m["strings.Repeat"] = func(ex *Exec, c *frame, fn *ssa.Function, a []Value) Value {
		s := a[0].(*StrV)
		n := int(ex.concU64(a[1], "strings.Repeat"))
		var out []*Term
		for i := 0; i < n; i++ {
			out = append(out, s.b...)
		}
		return &StrV{b: out}
	}

	// ---- strconv (contract: parse(format(x)) = x; unconstrained text parses to arbitrary (value, err))
	fmtInt := func(ex *Exec, t *Term, signed bool) *StrV {
		if t.IsConst() {
			if signed {
				return ex.mkStr(strconv.FormatInt(t.SVal(), 10))
			}
			return ex.mkStr(strconv.FormatUint(t.val, 10))
		}
		// opaque rendering: length 1 placeholder byte sequence with a number tag
		ph := ex.newEnvVar("numtext", 8)
		return &StrV{b: []*Term{ph}, num: &NumTag{t: t, signed: signed}}
	}
	m["strconv.Itoa"] = func(ex *Exec, c *frame, fn *ssa.Function, a []Value) Value {
		return fmtInt(ex, a[0].(*Term), true)
	}
	m["strconv.FormatInt"] = func(ex *Exec, c *frame, fn *ssa.Function, a []Value) Value {
		if b := a[1].(*Term); !b.IsConst() || b.val != 10 {
			if a[0].(*Term).IsConst() && b.IsConst() {
				return ex.mkStr(strconv.FormatInt(a[0].(*Term).SVal(), int(b.val)))
			}
			panic(engineErr("FormatInt base"))
		}
		return fmtInt(ex, a[0].(*Term), true)
	}
	m["strconv.FormatUint"] = func(ex *Exec, c *frame, fn *ssa.Function, a []Value) Value {
		if b := a[1].(*Term); !b.IsConst() || b.val != 10 {
			if a[0].(*Term).IsConst() && b.IsConst() {
				return ex.mkStr(strconv.FormatUint(a[0].(*Term).val, int(b.val)))
			}
			panic(engineErr("FormatUint base"))
		}
		return fmtInt(ex, a[0].(*Term), false)
	}
	appendNum := func(signed bool) stubFn {
		return func(ex *Exec, c *frame, fn *ssa.Function, a []Value) Value {
			s := fmtInt(ex, a[1].(*Term), signed)
			dst, _ := a[0].(*SliceV)
			r := ex.appendOp(dst, s).(*SliceV)
			if dst.isNil() || ex.sliceLen(dst) == 0 {
				r2 := *r
				r2.num = s.num
				return &r2
			}
			if s.num != nil {
				panic(engineErr("AppendInt of symbolic number to non-empty buffer"))
			}
			return r
		}
	}
	m["strconv.AppendInt"] = appendNum(true)
	m["strconv.AppendUint"] = appendNum(false)
	parseInt := func(ex *Exec, s *StrV, bitSize int, signed bool, fname string) Value {
		tc := ex.tc
		errT := func(kind string) Value {
			// *strconv.NumError{Func, Num, Err}
			var inner Value
			p := ex.eng.pkgByPath["strconv"]
			g := p.Var("ErrSyntax")
			if kind == "range" {
				g = p.Var("ErrRange")
			}
			inner = *ex.globalAddr(g)
			nt := ex.eng.namedType("strconv", "NumError")
			pp := new(Value)
			*pp = StructV{ex.mkStr(fname), s, inner}
			return IfaceV{t: types.NewPointer(nt), v: pp}
		}
		if bitSize == 0 {
			bitSize = 64
		}
		if s.num != nil && !s.num.isF {
			t := s.num.t
			// range check by width: value t (of its own width/signedness) must fit the target
			v64 := t
			if int(t.w) < 64 {
				if s.num.signed {
					v64 = tc.Sext(64, t)
				} else {
					v64 = tc.Zext(64, t)
				}
			}
			var fits *Term
			if signed && s.num.signed && bitSize == 64 {
				fits = tc.True
			} else if signed {
				lo := int64(-1) << uint(bitSize-1)
				hi := int64(1)<<uint(bitSize-1) - 1
				if s.num.signed {
					fits = tc.And(tc.Cmp(OSle, ex.i64(lo), v64), tc.Cmp(OSle, v64, ex.i64(hi)))
				} else {
					fits = tc.Cmp(OUle, v64, ex.i64(hi))
				}
			} else {
				if s.num.signed {
					nonneg := tc.Cmp(OSle, ex.i64(0), v64)
					if bitSize == 64 {
						fits = nonneg
					} else {
						fits = tc.And(nonneg, tc.Cmp(OUle, v64, tc.Const(64, mask(bitSize))))
					}
				} else {
					if bitSize == 64 {
						fits = tc.True
					} else {
						fits = tc.Cmp(OUle, v64, tc.Const(64, mask(bitSize)))
					}
				}
			}
			if ex.branch(fits) {
				return Tuple{v64, ex.nilError()}
			}
			if !signed && s.num.signed && ex.branch(tc.Cmp(OSlt, v64, ex.i64(0))) {
				return Tuple{ex.i64(0), errT("syntax")}
			}
			// out of range: saturates
			var sat *Term
			if signed {
				neg := tc.Cmp(OSlt, v64, ex.i64(0))
				if !s.num.signed {
					neg = tc.False
				}
				sat = tc.Ite(neg, ex.i64(int64(-1)<<uint(bitSize-1)), ex.i64(int64(1)<<uint(bitSize-1)-1))
			} else {
				sat = tc.Const(64, mask(bitSize))
			}
			return Tuple{sat, errT("range")}
		}
		if cs, ok := s.conc(); ok {
			if signed {
				v, err := strconv.ParseInt(cs, 10, bitSize)
				if err != nil {
					kind := "syntax"
					if ne, ok := err.(*strconv.NumError); ok && ne.Err == strconv.ErrRange {
						kind = "range"
					}
					return Tuple{ex.i64(v), errT(kind)}
				}
				return Tuple{ex.i64(v), ex.nilError()}
			}
			v, err := strconv.ParseUint(cs, 10, bitSize)
			if err != nil {
				kind := "syntax"
				if ne, ok := err.(*strconv.NumError); ok && ne.Err == strconv.ErrRange {
					kind = "range"
				}
				return Tuple{tc.Const(64, v), errT(kind)}
			}
			return Tuple{tc.Const(64, v), ex.nilError()}
		}
		// symbolic text of concrete length: exact decimal model (optional sign for signed parses; every
		// other byte must be a digit), no digit separators (base 10), at most 18 characters so that the
		// 64-bit accumulation cannot overflow.
		n := len(s.b)
		if n == 0 {
			return Tuple{ex.i64(0), errT("syntax")}
		}
		if n > 18 {
			panic(pathEnd{"bound", "symbolic number text longer than 18 characters"})
		}
		digits := s.b
		neg := tc.False
		if signed {
			isMinus := tc.Eq(s.b[0], ex.u8('-'))
			isPlus := tc.Eq(s.b[0], ex.u8('+'))
			if ex.branch(tc.Or(isMinus, isPlus)) {
				neg = isMinus
				digits = s.b[1:]
				if len(digits) == 0 {
					return Tuple{ex.i64(0), errT("syntax")}
				}
			}
		}
		allDigits := tc.True
		for _, b := range digits {
			allDigits = tc.And(allDigits, tc.And(tc.Cmp(OUle, ex.u8('0'), b), tc.Cmp(OUle, b, ex.u8('9'))))
		}
		if !ex.branch(allDigits) {
			return Tuple{ex.i64(0), errT("syntax")}
		}
		acc := ex.i64(0)
		for _, b := range digits {
			d := tc.Zext(64, tc.Bin(OSub, b, ex.u8('0')))
			acc = tc.Bin(OAdd, tc.Bin(OMul, acc, ex.i64(10)), d)
		}
		val := tc.Ite(neg, tc.Neg(acc), acc)
		// range by bit size (cannot exceed 64 bits with <= 18 digits)
		if bitSize < 64 {
			var fits *Term
			if signed {
				fits = tc.And(tc.Cmp(OSle, ex.i64(int64(-1)<<uint(bitSize-1)), val), tc.Cmp(OSle, val, ex.i64(int64(1)<<uint(bitSize-1)-1)))
			} else {
				fits = tc.Cmp(OUle, val, tc.Const(64, mask(bitSize)))
			}
			if !ex.branch(fits) {
				if signed {
					return Tuple{tc.Ite(neg, ex.i64(int64(-1)<<uint(bitSize-1)), ex.i64(int64(1)<<uint(bitSize-1)-1)), errT("range")}
				}
				return Tuple{tc.Const(64, mask(bitSize)), errT("range")}
			}
		}
		return Tuple{val, ex.nilError()}
	}
	m["strconv.ParseInt"] = func(ex *Exec, c *frame, fn *ssa.Function, a []Value) Value {
		base := a[1].(*Term)
		if !base.IsConst() || (base.val != 10 && base.val != 0) {
			if cs, ok := ex.goStr(a[0]); ok && base.IsConst() {
				v, err := strconv.ParseInt(cs, int(base.val), int(ex.concU64(a[2], "bitSize")))
				if err != nil {
					return Tuple{ex.i64(v), ex.errorValue(err.Error())}
				}
				return Tuple{ex.i64(v), ex.nilError()}
			}
			panic(engineErr("ParseInt: unsupported base"))
		}
		return parseInt(ex, a[0].(*StrV), int(ex.concU64(a[2], "bitSize")), true, "ParseInt")
	}
	m["strconv.ParseUint"] = func(ex *Exec, c *frame, fn *ssa.Function, a []Value) Value {
		base := a[1].(*Term)
		if !base.IsConst() || (base.val != 10 && base.val != 0) {
			if cs, ok := ex.goStr(a[0]); ok && base.IsConst() {
				v, err := strconv.ParseUint(cs, int(base.val), int(ex.concU64(a[2], "bitSize")))
				if err != nil {
					return Tuple{ex.tc.Const(64, v), ex.errorValue(err.Error())}
				}
				return Tuple{ex.tc.Const(64, v), ex.nilError()}
			}
			panic(engineErr("ParseUint: unsupported base"))
		}
		return parseInt(ex, a[0].(*StrV), int(ex.concU64(a[2], "bitSize")), false, "ParseUint")
	}
	m["strconv.Atoi"] = func(ex *Exec, c *frame, fn *ssa.Function, a []Value) Value {
		return parseInt(ex, a[0].(*StrV), 64, true, "Atoi")
	}
	m["strconv.ParseFloat"] = func(ex *Exec, c *frame, fn *ssa.Function, a []Value) Value {
		s := a[0].(*StrV)
		bits := int(ex.concU64(a[1], "bitSize"))
		if s.num != nil && s.num.isF {
			return Tuple{ex.tc.FToF(WF64, s.num.t), ex.nilError()}
		}
		if s.num != nil {
			return Tuple{ex.tc.FFromInt(WF64, s.num.t, s.num.signed), ex.nilError()}
		}
		if cs, ok := s.conc(); ok {
			v, err := strconv.ParseFloat(cs, bits)
			if err != nil {
				return Tuple{ex.tc.FConst(WF64, v), ex.errorValue(err.Error())}
			}
			return Tuple{ex.tc.FConst(WF64, v), ex.nilError()}
		}
		// symbolic text: all-digit strings are integer-valued (exact); anything else is either a syntax
		// error or parses to an arbitrary float (formats such as 1.5, 1e3, inf are not modelled byte by byte)
		tc := ex.tc
		if len(s.b) == 0 {
			return Tuple{tc.FConst(WF64, 0), ex.errorValue("strconv.ParseFloat: invalid syntax")}
		}
		allDigits := tc.True
		for _, b := range s.b {
			allDigits = tc.And(allDigits, tc.And(tc.Cmp(OUle, ex.u8('0'), b), tc.Cmp(OUle, b, ex.u8('9'))))
		}
		if len(s.b) <= 15 && ex.branch(allDigits) {
			acc := ex.i64(0)
			for _, b := range s.b {
				d := tc.Zext(64, tc.Bin(OSub, b, ex.u8('0')))
				acc = tc.Bin(OAdd, tc.Bin(OMul, acc, ex.i64(10)), d)
			}
			return Tuple{tc.FFromInt(WF64, acc, true), ex.nilError()}
		}
		// non-digit text: recognised by text when it is one of a few representative forms (negative, fractional,
		// huge, tiny, NaN, infinities); every other text is a syntax error in this model (stated bound)
		for _, cand := range []string{"-1", ".5", "1e30", "1e-9", "NaN", "Inf", "-Inf", "-0"} {
			if len(cand) != len(s.b) {
				continue
			}
			if ex.branch(ex.strEq(s, ex.mkStr(cand))) {
				v, _ := strconv.ParseFloat(cand, 64)
				return Tuple{tc.FConst(WF64, v), ex.nilError()}
			}
		}
		ex.note("ParseFloat model: all-digit texts exact, a fixed set of other forms by text, anything else a syntax error")
		return Tuple{tc.FConst(WF64, 0), ex.errorValue("strconv.ParseFloat: invalid syntax")}
	}
	m["strconv.FormatFloat"] = func(ex *Exec, c *frame, fn *ssa.Function, a []Value) Value {
		t := a[0].(*Term)
		if t.IsConst() {
			return ex.mkStr(strconv.FormatFloat(t.FVal(), byte(ex.concU64(a[1], "fmt")), int(int64(ex.concU64(a[2], "prec"))), int(ex.concU64(a[3], "bits"))))
		}
		ph := ex.newEnvVar("floattext", 8)
		return &StrV{b: []*Term{ph}, num: &NumTag{t: t, isF: true}}
	}
	m["strconv.AppendFloat"] = func(ex *Exec, c *frame, fn *ssa.Function, a []Value) Value {
		s := m["strconv.FormatFloat"](ex, c, fn, a[1:]).(*StrV)
		dst, _ := a[0].(*SliceV)
		r := ex.appendOp(dst, s).(*SliceV)
		if s.num != nil {
			r2 := *r
			r2.num = s.num
			return &r2
		}
		return r
	}
	m["strconv.ParseBool"] = func(ex *Exec, c *frame, fn *ssa.Function, a []Value) Value {
		cs := ex.mustStr(a[0], "ParseBool")
		v, err := strconv.ParseBool(cs)
		if err != nil {
			return Tuple{ex.tc.False, ex.errorValue(err.Error())}
		}
		return Tuple{ex.tc.Bool(v), ex.nilError()}
	}
	m["strconv.Quote"] = func(ex *Exec, c *frame, fn *ssa.Function, a []Value) Value {
		if cs, ok := ex.goStr(a[0]); ok {
			return ex.mkStr(strconv.Quote(cs))
		}
		return ex.mkStr("\"<sym>\"")
	}

	// ---- math
	m["math.Float64bits"] = func(ex *Exec, c *frame, fn *ssa.Function, a []Value) Value {
		t := a[0].(*Term)
		if t.IsConst() {
			return ex.tc.Const(64, t.val)
		}
		panic(engineErr("Float64bits of symbolic float"))
	}
	m["math.Float64frombits"] = func(ex *Exec, c *frame, fn *ssa.Function, a []Value) Value {
		t := a[0].(*Term)
		if t.IsConst() {
			return ex.tc.FConst(WF64, math.Float64frombits(t.val))
		}
		panic(engineErr("Float64frombits of symbolic"))
	}
	m["math.Float32bits"] = func(ex *Exec, c *frame, fn *ssa.Function, a []Value) Value {
		t := a[0].(*Term)
		if t.IsConst() {
			return ex.tc.Const(32, t.val)
		}
		panic(engineErr("Float32bits of symbolic float"))
	}
	m["math.Float32frombits"] = func(ex *Exec, c *frame, fn *ssa.Function, a []Value) Value {
		t := a[0].(*Term)
		if t.IsConst() {
			return ex.tc.FConst(WF32, float64(math.Float32frombits(uint32(t.val))))
		}
		panic(engineErr("Float32frombits of symbolic"))
	}

	for name, f := range map[string]func(float64) float64{"math.Ceil": math.Ceil, "math.Floor": math.Floor, "math.Trunc": math.Trunc, "math.Abs": math.Abs, "math.Sqrt": math.Sqrt, "math.Round": math.Round} {
		f := f
		name := name
		m[name] = func(ex *Exec, c *frame, fn *ssa.Function, a []Value) Value {
			t := a[0].(*Term)
			if !t.IsConst() {
				panic(engineErr("%s of a symbolic float", name))
			}
			return ex.tc.FConst(WF64, f(t.FVal()))
		}
	}

	// ---- sort (insertion sort with the real less closure: what the stdlib runs for n <= 12)
	m["sort.Slice"] = func(ex *Exec, c *frame, fn *ssa.Function, a []Value) Value {
		iv := a[0].(IfaceV)
		s, _ := iv.v.(*SliceV)
		if s.isNil() {
			return nil
		}
		n := ex.sliceLen(s)
		if n > 12 {
			panic(pathEnd{"bound", "sort.Slice with more than 12 elements (outside the bound)"})
		}
		less := a[1]
		for i := int64(1); i < n; i++ {
			for j := i; j > 0; j-- {
				r := ex.call(c, less, []Value{ex.i64(j), ex.i64(j - 1)}, 0)
				if !ex.branch(r.(*Term)) {
					break
				}
				pa, pb := s.elem(j), s.elem(j-1)
				*pa, *pb = *pb, *pa
				ex.effect()
			}
		}
		return nil
	}
	m["sort.SliceStable"] = m["sort.Slice"]
	m["sort.Strings"] = func(ex *Exec, c *frame, fn *ssa.Function, a []Value) Value {
		s, _ := a[0].(*SliceV)
		if s.isNil() {
			return nil
		}
		n := ex.sliceLen(s)
		for i := int64(1); i < n; i++ {
			for j := i; j > 0; j-- {
				x, y := (*s.elem(j)).(*StrV), (*s.elem(j - 1)).(*StrV)
				if !ex.branch(ex.strLess(x, y, false)) {
					break
				}
				pa, pb := s.elem(j), s.elem(j-1)
				*pa, *pb = *pb, *pa
			}
		}
		return nil
	}

	// ---- time (virtual clock; Time = {wall:0, ext:ns, loc:nil})
	mkTime := func(ex *Exec, ns *Term) Value {
		return StructV{ex.tc.Const(64, 0), ns, (*Value)(nil)}
	}
	timeNs := func(v Value) *Term { return v.(StructV)[1].(*Term) }
	m["time.Now"] = func(ex *Exec, c *frame, fn *ssa.Function, a []Value) Value {
		return mkTime(ex, ex.now())
	}
	m["(time.Time).UnixNano"] = func(ex *Exec, c *frame, fn *ssa.Function, a []Value) Value { return timeNs(a[0]) }
	m["(time.Time).UnixMilli"] = func(ex *Exec, c *frame, fn *ssa.Function, a []Value) Value {
		return ex.divConst(timeNs(a[0]), 1000000)
	}
	m["(time.Time).UnixMicro"] = func(ex *Exec, c *frame, fn *ssa.Function, a []Value) Value {
		return ex.divConst(timeNs(a[0]), 1000)
	}
	m["(time.Time).Unix"] = func(ex *Exec, c *frame, fn *ssa.Function, a []Value) Value {
		return ex.divConst(timeNs(a[0]), 1000000000)
	}
	m["(time.Time).Add"] = func(ex *Exec, c *frame, fn *ssa.Function, a []Value) Value {
		return mkTime(ex, ex.tc.Bin(OAdd, timeNs(a[0]), a[1].(*Term)))
	}
	m["(time.Time).Sub"] = func(ex *Exec, c *frame, fn *ssa.Function, a []Value) Value {
		return ex.tc.Bin(OSub, timeNs(a[0]), timeNs(a[1]))
	}
	m["(time.Time).After"] = func(ex *Exec, c *frame, fn *ssa.Function, a []Value) Value {
		return ex.tc.Cmp(OSlt, timeNs(a[1]), timeNs(a[0]))
	}
	m["(time.Time).Before"] = func(ex *Exec, c *frame, fn *ssa.Function, a []Value) Value {
		return ex.tc.Cmp(OSlt, timeNs(a[0]), timeNs(a[1]))
	}
	m["(time.Time).Equal"] = func(ex *Exec, c *frame, fn *ssa.Function, a []Value) Value {
		return ex.tc.Eq(timeNs(a[0]), timeNs(a[1]))
	}
	m["(time.Time).IsZero"] = func(ex *Exec, c *frame, fn *ssa.Function, a []Value) Value {
		return ex.tc.Eq(timeNs(a[0]), ex.i64(0))
	}
	m["time.Since"] = func(ex *Exec, c *frame, fn *ssa.Function, a []Value) Value {
		return ex.tc.Bin(OSub, ex.now(), timeNs(a[0]))
	}
	m["time.Until"] = func(ex *Exec, c *frame, fn *ssa.Function, a []Value) Value {
		return ex.tc.Bin(OSub, timeNs(a[0]), ex.now())
	}
	m["time.Unix"] = func(ex *Exec, c *frame, fn *ssa.Function, a []Value) Value {
		return mkTime(ex, ex.tc.Bin(OAdd, ex.tc.Bin(OMul, a[0].(*Term), ex.i64(1000000000)), a[1].(*Term)))
	}
	m["time.UnixMilli"] = func(ex *Exec, c *frame, fn *ssa.Function, a []Value) Value {
		return mkTime(ex, ex.tc.Bin(OMul, a[0].(*Term), ex.i64(1000000)))
	}
	m["(time.Duration).Seconds"] = func(ex *Exec, c *frame, fn *ssa.Function, a []Value) Value {
		return ex.tc.DurSeconds(a[0].(*Term))
	}
	// virtual timers: registered with their firing instant; when a sequential execution would block on a select or a
	// receive, the earliest active timer fires (the virtual clock jumps to its instant)
	mkTimer := func(ex *Exec, d *Term, fn Value) Value {
		tt := ex.eng.namedType("time", "Timer")
		p := new(Value)
		z := ex.zero(tt).(StructV)
		ch := &ChanV{cap: 1, elemT: ex.eng.namedType("time", "Time")}
		z[0] = ch
		*p = z
		ex.timers = append(ex.timers, &vTimer{at: ex.tc.Bin(OAdd, ex.now(), d), ch: ch, fn: fn, active: true, ptr: p})
		return p
	}
	findTimer := func(ex *Exec, v Value) *vTimer {
		p, _ := v.(*Value)
		for _, t := range ex.timers {
			if t.ptr == p {
				return t
			}
		}
		return nil
	}
	m["time.NewTimer"] = func(ex *Exec, c *frame, fn *ssa.Function, a []Value) Value { return mkTimer(ex, a[0].(*Term), nil) }
	m["time.AfterFunc"] = func(ex *Exec, c *frame, fn *ssa.Function, a []Value) Value { return mkTimer(ex, a[0].(*Term), a[1]) }
	m["time.After"] = func(ex *Exec, c *frame, fn *ssa.Function, a []Value) Value {
		p := mkTimer(ex, a[0].(*Term), nil).(*Value)
		return (*p).(StructV)[0]
	}
	m["(*time.Timer).Stop"] = func(ex *Exec, c *frame, fn *ssa.Function, a []Value) Value {
		t := findTimer(ex, a[0])
		if t == nil {
			return ex.tc.False
		}
		was := t.active
		t.active = false
		t.ch.buf = nil
		ex.effect()
		return ex.tc.Bool(was)
	}
	m["(*time.Timer).Reset"] = func(ex *Exec, c *frame, fn *ssa.Function, a []Value) Value {
		t := findTimer(ex, a[0])
		if t == nil {
			return ex.tc.False
		}
		was := t.active
		t.active = true
		t.at = ex.tc.Bin(OAdd, ex.now(), a[1].(*Term))
		t.ch.buf = nil
		ex.effect()
		return ex.tc.Bool(was)
	}
	m["time.Sleep"] = func(ex *Exec, c *frame, fn *ssa.Function, a []Value) Value {
		ex.advanceClock(a[0].(*Term))
		return nil
	}

	// ---- crypto/rand, math/rand
	m["crypto/rand.Read"] = func(ex *Exec, c *frame, fn *ssa.Function, a []Value) Value {
		s, _ := a[0].(*SliceV)
		n := int64(0)
		if !s.isNil() {
			n = ex.sliceLen(s)
			// the random source is modelled as a sequence of pairwise distinct concrete blocks (only distinctness of
			// lock tokens matters to the code under test; symbolic bytes would make hex encoding fork per nibble)
			ctr, _ := ex.extra["randCtr"].(int)
			ctr++
			ex.extra["randCtr"] = ctr
			for i := int64(0); i < n; i++ {
				*s.elem(i) = ex.u8(byte(0xA0 + ctr*17 + int(i)*3))
			}
			if n > 0 {
				*s.elem(0) = ex.u8(byte(ctr))
			}
		}
		return Tuple{ex.i64(n), ex.nilError()}
	}
	m["math/rand.Intn"] = func(ex *Exec, c *frame, fn *ssa.Function, a []Value) Value {
		n := a[0].(*Term)
		v := ex.newEnvVar("intn", 64)
		ex.addAssume(ex.tc.And(ex.tc.Cmp(OSle, ex.i64(0), v), ex.tc.Cmp(OSlt, v, n)))
		return v
	}

	// ---- roaring64 (sorted set of concrete offsets)
	const rp = "github.com/RoaringBitmap/roaring/roaring64"
	m[rp+".New"] = func(ex *Exec, c *frame, fn *ssa.Function, a []Value) Value {
		p := new(Value)
		*p = &Opaque{kind: "roaring64", data: &roar{}}
		return p
	}
	m[rp+".NewBitmap"] = m[rp+".New"]
	m["(*"+rp+".Bitmap).Add"] = func(ex *Exec, c *frame, fn *ssa.Function, a []Value) Value {
		ex.effect()
		ex.roarOf(a[0]).add(ex.concU64(a[1], "roaring.Add"))
		return nil
	}
	m["(*"+rp+".Bitmap).Remove"] = func(ex *Exec, c *frame, fn *ssa.Function, a []Value) Value {
		ex.effect()
		ex.roarOf(a[0]).remove(ex.concU64(a[1], "roaring.Remove"))
		return nil
	}
	m["(*"+rp+".Bitmap).Contains"] = func(ex *Exec, c *frame, fn *ssa.Function, a []Value) Value {
		r := ex.roarOf(a[0])
		v := ex.concU64(a[1], "roaring.Contains")
		i := sort.Search(len(r.set), func(i int) bool { return r.set[i] >= v })
		return ex.tc.Bool(i < len(r.set) && r.set[i] == v)
	}
	m["(*"+rp+".Bitmap).GetCardinality"] = func(ex *Exec, c *frame, fn *ssa.Function, a []Value) Value {
		return ex.tc.Const(64, uint64(len(ex.roarOf(a[0]).set)))
	}
	m["(*"+rp+".Bitmap).IsEmpty"] = func(ex *Exec, c *frame, fn *ssa.Function, a []Value) Value {
		return ex.tc.Bool(len(ex.roarOf(a[0]).set) == 0)
	}
	m["(*"+rp+".Bitmap).Clear"] = func(ex *Exec, c *frame, fn *ssa.Function, a []Value) Value {
		ex.effect()
		ex.roarOf(a[0]).set = nil
		return nil
	}
	m["(*"+rp+".Bitmap).Iterator"] = func(ex *Exec, c *frame, fn *ssa.Function, a []Value) Value {
		r := ex.roarOf(a[0])
		// iterate over a snapshot, like the real iterator over containers at creation time
		snap := &roar{set: append([]uint64{}, r.set...)}
		p := new(Value)
		*p = &Opaque{kind: "roaringIter", data: &roarIter{r: snap}}
		it := ex.eng.namedType(rp, "intIterator")
		return IfaceV{t: types.NewPointer(it), v: p}
	}
	iterOf := func(v Value) *roarIter { return (*(v.(*Value))).(*Opaque).data.(*roarIter) }
	m["(*"+rp+".intIterator).HasNext"] = func(ex *Exec, c *frame, fn *ssa.Function, a []Value) Value {
		it := iterOf(a[0])
		return ex.tc.Bool(it.pos < len(it.r.set))
	}
	m["(*"+rp+".intIterator).Next"] = func(ex *Exec, c *frame, fn *ssa.Function, a []Value) Value {
		it := iterOf(a[0])
		if it.pos >= len(it.r.set) {
			ex.throw("roaring iterator exhausted")
		}
		ex.effect()
		v := it.r.set[it.pos]
		it.pos++
		return ex.tc.Const(64, v)
	}
	m["(*"+rp+".intIterator).PeekNext"] = func(ex *Exec, c *frame, fn *ssa.Function, a []Value) Value {
		it := iterOf(a[0])
		if it.pos >= len(it.r.set) {
			ex.throw("roaring iterator exhausted")
		}
		return ex.tc.Const(64, it.r.set[it.pos])
	}
	m["(*"+rp+".intIterator).AdvanceIfNeeded"] = func(ex *Exec, c *frame, fn *ssa.Function, a []Value) Value {
		it := iterOf(a[0])
		min := ex.concU64(a[1], "AdvanceIfNeeded")
		ex.effect()
		for it.pos < len(it.r.set) && it.r.set[it.pos] < min {
			it.pos++
		}
		return nil
	}
	m["(*"+rp+".Bitmap).MarshalBinary"] = func(ex *Exec, c *frame, fn *ssa.Function, a []Value) Value {
		r := ex.roarOf(a[0])
		s := ex.mkByteSlice([]*Term{ex.u8(0x3a), ex.u8(0x30), ex.u8(0), ex.u8(0)})
		s.tok = &roar{set: append([]uint64{}, r.set...)}
		return Tuple{s, ex.nilError()}
	}
	m["(*"+rp+".Bitmap).UnmarshalBinary"] = func(ex *Exec, c *frame, fn *ssa.Function, a []Value) Value {
		s, _ := a[1].(*SliceV)
		if s.isNil() || s.tok == nil {
			return ex.errorValue("roaring: cannot unmarshal (no payload handle)")
		}
		src, ok := s.tok.(*roar)
		if !ok {
			return ex.errorValue("roaring: payload is not a bitmap")
		}
		ex.effect()
		ex.roarOf(a[0]).set = append([]uint64{}, src.set...)
		return ex.nilError()
	}

	// ---- msgpack: identity on an opaque payload handle
	const mp = "github.com/vmihailenco/msgpack/v5"
	m[mp+".Marshal"] = func(ex *Exec, c *frame, fn *ssa.Function, a []Value) Value {
		v := ex.deepCopy(a[0], map[interface{}]Value{})
		s := ex.mkByteSlice([]*Term{ex.u8(0x80), ex.u8(0), ex.u8(0), ex.u8(0), ex.u8(0), ex.u8(0), ex.u8(0), ex.u8(0)})
		s.tok = v
		return Tuple{s, ex.nilError()}
	}
	m[mp+".Unmarshal"] = func(ex *Exec, c *frame, fn *ssa.Function, a []Value) Value {
		s, _ := a[0].(*SliceV)
		if s.isNil() || s.tok == nil {
			return ex.errorValue("msgpack: cannot decode (no payload handle)")
		}
		src, ok := s.tok.(IfaceV)
		if !ok {
			return ex.errorValue("msgpack: payload handle of wrong kind")
		}
		dst := a[1].(IfaceV)
		dp, _ := dst.v.(*Value)
		if dp == nil {
			return ex.errorValue("msgpack: Unmarshal(nil)")
		}
		val := ex.deepCopy(src.v, map[interface{}]Value{})
		// src may be T or *T; dst is *T
		if sp, isPtr := val.(*Value); isPtr && types.Identical(src.t, dst.t) {
			if sp == nil {
				return ex.errorValue("msgpack: nil payload")
			}
			val = *sp
		} else if !types.Identical(types.NewPointer(src.t), dst.t) && !types.Identical(src.t, dst.t) {
			return ex.errorValue("msgpack: type mismatch " + typeString(src.t) + " vs " + typeString(dst.t))
		}
		ex.effect()
		store(dp, val)
		return ex.nilError()
	}

	// ---- environment of olric.New: the network configuration (interface lookup, address resolution) is the
	// machine's, not the program's: it succeeds and leaves the configured addresses as they are
	m["(*"+olricPath+"/config.Config).SetupNetworkConfig"] = func(ex *Exec, c *frame, fn *ssa.Function, a []Value) Value {
		return ex.nilError()
	}

	// ---- unsafe string<->bytes helpers of olric: BytesToString yields a string that shares the slice's memory (later
	// writes to those bytes show through, see StrV.src); StringToBytes yields the same bytes (writing through it is
	// not modelled)
	m[olricPath+"/internal/util.BytesToString"] = func(ex *Exec, c *frame, fn *ssa.Function, a []Value) Value {
		sl, _ := a[0].(*SliceV)
		if sl.isNil() {
			return ex.emptyStr
		}
		h := *sl
		return &StrV{b: ex.bytesOf(sl), num: sl.num, src: &h}
	}
	m[olricPath+"/internal/util.StringToBytes"] = func(ex *Exec, c *frame, fn *ssa.Function, a []Value) Value {
		st := a[0].(*StrV)
		r := ex.mkByteSlice(st.b)
		r.num = st.num
		return r
	}

	// ---- strings.Builder (fields: addr *Builder, buf []byte)
	sbBuf := func(ex *Exec, v Value) *Value {
		st := ptrStruct(v)
		if st == nil {
			ex.throw("nil strings.Builder")
		}
		return &st[1]
	}
	m["(*strings.Builder).Write"] = func(ex *Exec, c *frame, fn *ssa.Function, a []Value) Value {
		p := sbBuf(ex, a[0])
		ex.effect()
		src, _ := a[1].(*SliceV)
		n := int64(0)
		if !src.isNil() {
			n = ex.sliceLen(src)
		}
		cur, _ := (*p).(*SliceV)
		*p = ex.appendOp(cur, src)
		return Tuple{ex.i64(n), ex.nilError()}
	}
	m["(*strings.Builder).WriteString"] = func(ex *Exec, c *frame, fn *ssa.Function, a []Value) Value {
		p := sbBuf(ex, a[0])
		ex.effect()
		cur, _ := (*p).(*SliceV)
		*p = ex.appendOp(cur, a[1])
		return Tuple{ex.i64(int64(len(a[1].(*StrV).b))), ex.nilError()}
	}
	m["(*strings.Builder).WriteByte"] = func(ex *Exec, c *frame, fn *ssa.Function, a []Value) Value {
		p := sbBuf(ex, a[0])
		ex.effect()
		cur, _ := (*p).(*SliceV)
		*p = ex.appendOp(cur, &StrV{b: []*Term{a[1].(*Term)}})
		return ex.nilError()
	}
	m["(*strings.Builder).WriteRune"] = func(ex *Exec, c *frame, fn *ssa.Function, a []Value) Value {
		p := sbBuf(ex, a[0])
		r := a[1].(*Term)
		if !r.IsConst() {
			panic(engineErr("Builder.WriteRune symbolic"))
		}
		cur, _ := (*p).(*SliceV)
		str := string(rune(r.SVal()))
		*p = ex.appendOp(cur, ex.mkStr(str))
		return Tuple{ex.i64(int64(len(str))), ex.nilError()}
	}
	m["(*strings.Builder).String"] = func(ex *Exec, c *frame, fn *ssa.Function, a []Value) Value {
		p := sbBuf(ex, a[0])
		cur, _ := (*p).(*SliceV)
		if cur.isNil() {
			return ex.emptyStr
		}
		return &StrV{b: ex.bytesOf(cur)}
	}
	m["(*strings.Builder).Len"] = func(ex *Exec, c *frame, fn *ssa.Function, a []Value) Value {
		p := sbBuf(ex, a[0])
		cur, _ := (*p).(*SliceV)
		if cur.isNil() {
			return ex.i64(0)
		}
		return cur.len
	}
	m["(*strings.Builder).Reset"] = func(ex *Exec, c *frame, fn *ssa.Function, a []Value) Value {
		*sbBuf(ex, a[0]) = (*SliceV)(nil)
		return nil
	}
	m["(*strings.Builder).Grow"] = stubNoop

	// ---- go-redis client / olric server.Client: no sockets; Process is routed to the harness' vpProcess
	const rp9 = "github.com/redis/go-redis/v9"
	m[olricPath+"/internal/server.NewClient"] = func(ex *Exec, c *frame, fn *ssa.Function, a []Value) Value {
		p := new(Value)
		*p = ex.zero(ex.eng.namedType(olricPath+"/internal/server", "Client"))
		return p
	}
	m["(*"+olricPath+"/internal/server.Client).Get"] = func(ex *Exec, c *frame, fn *ssa.Function, a []Value) Value {
		addr := ex.mustStr(a[1], "server.Client.Get addr")
		key := fmt.Sprintf("redisClient:%p:%s", a[0], addr)
		if p, ok := ex.extra[key]; ok {
			return p.(*Value)
		}
		p := new(Value)
		*p = ex.zero(ex.eng.namedType(rp9, "Client"))
		ex.extra[key] = p
		ex.extra[fmt.Sprintf("redisAddr:%p", p)] = addr
		return p
	}
	m["(*"+olricPath+"/internal/server.Client).Close"] = func(ex *Exec, c *frame, fn *ssa.Function, a []Value) Value { return ex.nilError() }
	m["(*"+rp9+".hooksMixin).AddHook"] = stubNoop
	m["(*"+rp9+".Client).AddHook"] = stubNoop
	m["(*"+rp9+".Client).Process"] = func(ex *Exec, c *frame, fn *ssa.Function, a []Value) Value {
		p, _ := a[0].(*Value)
		if p == nil {
			ex.throw("nil redis client")
		}
		addr, ok := ex.extra[fmt.Sprintf("redisAddr:%p", p)].(string)
		if !ok {
			panic(engineErr("redis.Client.Process on a client not obtained from server.Client.Get"))
		}
		vp := ex.entryPkg.Func("vpProcess")
		if vp == nil {
			panic(engineErr("harness package has no vpProcess"))
		}
		ex.effect()
		if ex.threads != nil {
			ex.threads.yield() // an RPC boundary is a scheduling point
		}
		err := ex.callSSA(c, vp, []Value{ex.mkStr(addr), a[1], a[2]}, nil)
		// go-redis stores the error in the command as well
		cmd := a[2].(IfaceV)
		if setErr := ex.eng.lookupMethod(cmd.t, nil, "SetErr"); setErr != nil {
			ex.callSSA(c, setErr, []Value{cmd.v, err}, nil)
		}
		return err
	}
	// pipelines: commands are collected and delivered one by one through vpProcess on Exec
	type pipeState struct {
		addr string
		cmds []Value
	}
	m["(*"+rp9+".Client).Pipeline"] = func(ex *Exec, c *frame, fn *ssa.Function, a []Value) Value {
		p, _ := a[0].(*Value)
		addr, ok := ex.extra[fmt.Sprintf("redisAddr:%p", p)].(string)
		if !ok {
			panic(engineErr("Pipeline on a client not obtained from server.Client.Get"))
		}
		pt := ex.eng.namedType(rp9, "Pipeline")
		pp := new(Value)
		*pp = ex.zero(pt)
		ex.extra[fmt.Sprintf("pipe:%p", pp)] = &pipeState{addr: addr}
		return IfaceV{t: types.NewPointer(pt), v: pp}
	}
	pipeOf := func(ex *Exec, v Value) *pipeState {
		ps, ok := ex.extra[fmt.Sprintf("pipe:%p", v.(*Value))].(*pipeState)
		if !ok {
			panic(engineErr("unknown pipeline"))
		}
		return ps
	}
	m["(*"+rp9+".Pipeline).Do"] = func(ex *Exec, c *frame, fn *ssa.Function, a []Value) Value {
		ps := pipeOf(ex, a[0])
		newCmd := ex.eng.pkgByPath[rp9].Func("NewCmd")
		cmd := ex.callSSA(c, newCmd, []Value{a[1], a[2]}, nil)
		ex.effect()
		ps.cmds = append(ps.cmds, cmd)
		return cmd
	}
	m["(*"+rp9+".Pipeline).Len"] = func(ex *Exec, c *frame, fn *ssa.Function, a []Value) Value {
		return ex.i64(int64(len(pipeOf(ex, a[0]).cmds)))
	}
	m["(*"+rp9+".Pipeline).Discard"] = func(ex *Exec, c *frame, fn *ssa.Function, a []Value) Value {
		pipeOf(ex, a[0]).cmds = nil
		return nil
	}
	m["(*"+rp9+".Pipeline).Exec"] = func(ex *Exec, c *frame, fn *ssa.Function, a []Value) Value {
		ps := pipeOf(ex, a[0])
		vp := ex.entryPkg.Func("vpProcess")
		if vp == nil {
			panic(engineErr("harness package has no vpProcess"))
		}
		cmderT := ex.eng.namedType(rp9, "Cmder")
		var first Value = IfaceV{}
		d := make([]Value, 0, len(ps.cmds))
		for _, cv := range ps.cmds {
			ex.effect()
			cmdI := IfaceV{t: types.NewPointer(ex.eng.namedType(rp9, "Cmd")), v: cv}
			err := ex.callSSA(c, vp, []Value{ex.mkStr(ps.addr), a[1], cmdI}, nil)
			if setErr := ex.eng.lookupMethod(cmdI.t, nil, "SetErr"); setErr != nil {
				ex.callSSA(c, setErr, []Value{cv, err}, nil)
			}
			if e, _ := err.(IfaceV); e.t != nil {
				if f, _ := first.(IfaceV); f.t == nil {
					first = err
				}
			}
			d = append(d, cmdI)
		}
		_ = cmderT
		ps.cmds = nil
		return Tuple{ex.mkDenseSlice(d), first}
	}
	m["(*"+olricPath+"/internal/server.Client).Pick"] = func(ex *Exec, c *frame, fn *ssa.Function, a []Value) Value {
		// any member the client knows about may be picked
		var keys []string
		prefix := fmt.Sprintf("redisClient:%p:", a[0])
		for k := range ex.extra {
			if strings.HasPrefix(k, prefix) {
				keys = append(keys, k)
			}
		}
		if len(keys) == 0 {
			return Tuple{(*Value)(nil), ex.errorValue("no available client found")}
		}
		sort.Strings(keys)
		k := ex.choose(len(keys))
		ex.recordConcreteInput("env", "pick", uint64(k))
		return Tuple{ex.extra[keys[k]].(*Value), ex.nilError()}
	}
	m[rp9+"/internal/util.StringToBytes"] = m[olricPath+"/internal/util.StringToBytes"]
	m[rp9+"/internal/util.BytesToString"] = m[olricPath+"/internal/util.BytesToString"]
	m["strings.SplitN"] = func(ex *Exec, c *frame, fn *ssa.Function, a []Value) Value {
		parts := strings.SplitN(ex.mustStr(a[0], "strings.SplitN"), ex.mustStr(a[1], "strings.SplitN"), int(int64(ex.concU64(a[2], "SplitN n"))))
		d := make([]Value, len(parts))
		for i, p := range parts {
			d[i] = ex.mkStr(p)
		}
		return ex.mkDenseSlice(d)
	}

	// ---- encoding/hex on symbolic bytes (table lookups would fork 256 ways per byte)
	hexVal := func(ex *Exec, c *Term) (*Term, *Term) {
		tc := ex.tc
		isDig := tc.And(tc.Cmp(OUle, ex.u8('0'), c), tc.Cmp(OUle, c, ex.u8('9')))
		isLow := tc.And(tc.Cmp(OUle, ex.u8('a'), c), tc.Cmp(OUle, c, ex.u8('f')))
		isUp := tc.And(tc.Cmp(OUle, ex.u8('A'), c), tc.Cmp(OUle, c, ex.u8('F')))
		v := tc.Ite(isDig, tc.Bin(OSub, c, ex.u8('0')), tc.Ite(isLow, tc.Bin(OSub, c, ex.u8('a'-10)), tc.Bin(OSub, c, ex.u8('A'-10))))
		return v, tc.Or(isDig, tc.Or(isLow, isUp))
	}
	m["encoding/hex.DecodeString"] = func(ex *Exec, c *frame, fn *ssa.Function, a []Value) Value {
		s := a[0].(*StrV)
		tc := ex.tc
		errV := func(msg string) Value { return Tuple{(*SliceV)(nil), ex.errorValue(msg)} }
		valid := tc.True
		var out []*Term
		for i := 0; i+1 < len(s.b); i += 2 {
			hi, okh := hexVal(ex, s.b[i])
			lo, okl := hexVal(ex, s.b[i+1])
			valid = tc.And(valid, tc.And(okh, okl))
			out = append(out, tc.Bin(OOr, tc.Bin(OShl, hi, ex.u8(4)), lo))
		}
		if len(s.b)%2 == 1 {
			_, okl := hexVal(ex, s.b[len(s.b)-1])
			valid = tc.And(valid, okl)
		}
		if !ex.branch(valid) {
			return errV("encoding/hex: invalid byte")
		}
		if len(s.b)%2 == 1 {
			return errV("encoding/hex: odd length hex string")
		}
		if len(out) == 0 {
			return Tuple{ex.mkDenseSlice([]Value{}), ex.nilError()}
		}
		return Tuple{ex.mkByteSlice(out), ex.nilError()}
	}
	m["encoding/hex.EncodeToString"] = func(ex *Exec, c *frame, fn *ssa.Function, a []Value) Value {
		sl, _ := a[0].(*SliceV)
		if sl.isNil() {
			return ex.emptyStr
		}
		tc := ex.tc
		var out []*Term
		nib := func(n *Term) *Term {
			return tc.Ite(tc.Cmp(OUlt, n, ex.u8(10)), tc.Bin(OAdd, n, ex.u8('0')), tc.Bin(OAdd, n, ex.u8('a'-10)))
		}
		for _, b := range ex.bytesOf(sl) {
			out = append(out, nib(tc.Bin(OLShr, b, ex.u8(4))), nib(tc.Bin(OAnd, b, ex.u8(15))))
		}
		return &StrV{b: out}
	}

	xx := func(ex *Exec, c *frame, fn *ssa.Function, a []Value) Value {
		// a hash of opaque payloads only serves as a change signature: arbitrary value
		return ex.newEnvVar("xxhash", 64)
	}
	m["github.com/cespare/xxhash/v2.Sum64"] = xx
	m["github.com/cespare/xxhash/v2.Sum64String"] = xx

	// ---- regexp: abstract predicate (one arbitrary Bool per distinct concrete key per expression)
	m["regexp.Compile"] = func(ex *Exec, c *frame, fn *ssa.Function, a []Value) Value {
		expr := a[0].(*StrV)
		p := new(Value)
		ar := &absRegexp{expr: expr.String()}
		if cs, ok := expr.conc(); ok {
			re, err := regexp.Compile(cs)
			if err != nil {
				return Tuple{(*Value)(nil), ex.errorValue(err.Error())}
			}
			ar.re = re
		}
		*p = &Opaque{kind: "regexp", data: ar}
		return Tuple{p, ex.nilError()}
	}
	m["regexp.MustCompile"] = func(ex *Exec, c *frame, fn *ssa.Function, a []Value) Value {
		r := m["regexp.Compile"](ex, c, fn, a).(Tuple)
		if e := r[1].(IfaceV); e.t != nil {
			panic(targetPanic{v: e, msg: "regexp: Compile failed"})
		}
		return r[0]
	}
	reMatch := func(ex *Exec, re *absRegexp, key *StrV) Value {
		if re.re != nil {
			if ck, ok := key.conc(); ok {
				return ex.tc.Bool(re.re.MatchString(ck))
			}
		}
		return ex.absMatch(re, key.String())
	}
	m["(*regexp.Regexp).Match"] = func(ex *Exec, c *frame, fn *ssa.Function, a []Value) Value {
		re := (*(a[0].(*Value))).(*Opaque).data.(*absRegexp)
		s, _ := a[1].(*SliceV)
		key := &StrV{}
		if !s.isNil() {
			key = &StrV{b: ex.bytesOf(s)}
		}
		return reMatch(ex, re, key)
	}
	m["(*regexp.Regexp).MatchString"] = func(ex *Exec, c *frame, fn *ssa.Function, a []Value) Value {
		re := (*(a[0].(*Value))).(*Opaque).data.(*absRegexp)
		return reMatch(ex, re, a[1].(*StrV))
	}

	return m
}

type absRegexp struct {
	expr string
	re   *regexp.Regexp // concrete expression: the real engine decides concrete keys
}

func (ex *Exec) absMatch(re *absRegexp, key string) *Term {
	k := re.expr + "\x00" + key
	if ex.extra["regexp"] == nil {
		ex.extra["regexp"] = map[string]*Term{}
	}
	memo := ex.extra["regexp"].(map[string]*Term)
	if t, ok := memo[k]; ok {
		return t
	}
	t := ex.newInput("env", "match_"+key, 0)
	memo[k] = t
	return t
}

func (ex *Exec) addAssume(c *Term) {
	if c.IsConst() {
		if c.val == 0 {
			panic(pathEnd{"infeasible", "assumption is false"})
		}
		return
	}
	if v, ok := ex.lookupKnown(c); ok {
		if !v {
			panic(pathEnd{"infeasible", "assumption contradicts path"})
		}
		return
	}
	ex.effect()
	ex.addPC(c)
	if !ex.replaying() {
		if r := ex.sol.CheckSat(); r == Unsat {
			ex.stats.AssumePruned++
			panic(pathEnd{"infeasible", "assumption unsatisfiable on this path"})
		}
	}
}

// ---------------------------------------------------------------- clock

func (ex *Exec) now() *Term {
	if ex.clock == nil {
		// The virtual clock starts at a fixed instant (whole ms) and only advances when the harness lets time pass
		// (vpSleepMs / time.Sleep) by solver-chosen amounts: absolute time is irrelevant to the code under test,
		// and a constant origin keeps ns<->ms<->s conversions of absolute instants out of the solver.
		ex.clock = ex.tc.Bin(OMul, ex.i64(1700000000000), ex.i64(1000000))
	}
	return ex.clock
}

func (ex *Exec) advanceClock(d *Term) {
	ex.effect()
	ex.clock = ex.tc.Bin(OAdd, ex.now(), d)
}

// divConst divides a signed 64-bit term by a positive constant, cancelling exact multiples
// (t = q*K) syntactically. The cancellation assumes the multiplication did not overflow; all
// time values in harnesses are bounded well below 2^62 ns (stated in the evidence).
func (ex *Exec) divConst(t *Term, k int64) *Term {
	if q, ok := ex.divExact(t, uint64(k)); ok {
		return q
	}
	return ex.tc.Bin(OSDiv, t, ex.i64(k))
}

func (ex *Exec) divExact(t *Term, k uint64) (*Term, bool) {
	tc := ex.tc
	switch t.op {
	case OConst:
		if int64(t.val)%int64(k) == 0 {
			return tc.Const(64, uint64(int64(t.val)/int64(k))), true
		}
	case OMul:
		if t.b.IsConst() && int64(t.b.val)%int64(k) == 0 {
			return tc.Bin(OMul, t.a, tc.Const(64, uint64(int64(t.b.val)/int64(k)))), true
		}
		if t.a.IsConst() && int64(t.a.val)%int64(k) == 0 {
			return tc.Bin(OMul, t.b, tc.Const(64, uint64(int64(t.a.val)/int64(k)))), true
		}
	case OAdd, OSub:
		qa, ok1 := ex.divExact(t.a, k)
		qb, ok2 := ex.divExact(t.b, k)
		if ok1 && ok2 {
			return tc.Bin(t.op, qa, qb), true
		}
	case OIte:
		qa, ok1 := ex.divExact(t.b, k)
		qb, ok2 := ex.divExact(t.c, k)
		if ok1 && ok2 {
			return tc.Ite(t.a, qa, qb), true
		}
	}
	return nil, false
}

type vTimer struct {
	at     *Term
	ch     *ChanV
	fn     Value
	active bool
	ptr    *Value
}

// fireNextTimer fires the earliest active virtual timer; false if there is none.
func (ex *Exec) fireNextTimer(fr *frame) bool {
	if ex.extra["noTimers"] != nil {
		return false
	}
	var best *vTimer
	for _, t := range ex.timers {
		if !t.active {
			continue
		}
		if best == nil || ex.branch(ex.tc.Cmp(OSlt, t.at, best.at)) {
			best = t
		}
	}
	if best == nil {
		return false
	}
	ex.effect()
	best.active = false
	if ex.branch(ex.tc.Cmp(OSlt, ex.now(), best.at)) {
		ex.clock = best.at
	}
	if best.fn != nil {
		ex.call(fr, best.fn, nil, 0)
	} else if len(best.ch.buf) < best.ch.cap {
		best.ch.buf = append(best.ch.buf, StructV{ex.tc.Const(64, 0), ex.now(), (*Value)(nil)})
	}
	return true
}
