package main

// Interpreter values. Integers, booleans and floats are *Term (possibly constant). Everything
// pointer-like is concrete (object identity = Go pointer identity), so aliasing is a fact of the
// execution rather than something encoded.

import (
	"fmt"
	"go/types"
	"strings"

	"golang.org/x/tools/go/ssa"
)

type Value interface{}

// StrV is an immutable byte string of concrete length; bytes may be symbolic.
type StrV struct {
	b   []*Term
	num *NumTag // non-nil: this string is the textual rendering of a number (strconv contract)
	tok interface{}
	// src is set for a string made by reinterpreting a []byte through unsafe (util.BytesToString): the string shares
	// the slice's memory, so a later write to those bytes changes the string. sync() re-reads it from the cells.
	src *SliceV
}

// sync refreshes an aliased string from the memory it shares (no-op for ordinary strings).
func (s *StrV) sync() {
	if s.src == nil {
		return
	}
	var nb []*Term
	for i := range s.b {
		t, ok := (*s.src.elem(int64(i))).(*Term)
		if !ok || t == s.b[i] {
			continue
		}
		if nb == nil {
			nb = append([]*Term(nil), s.b...)
		}
		nb[i] = t
	}
	if nb != nil {
		s.b = nb
		s.num = nil
		s.tok = nil
	}
}

// subAlias returns the header of the memory shared by s[lo:] (nil if s is not aliased).
func (s *StrV) subAlias(lo int64) *SliceV {
	if s.src == nil {
		return nil
	}
	h := *s.src
	if h.sp != nil {
		h.off += lo
	} else {
		h.dense = h.dense[lo:]
	}
	return &h
}

// NumTag marks a string/byte slice produced by a number formatter: parse(format(x)) = x.
type NumTag struct {
	t      *Term
	signed bool
	isF    bool
}

type StructV []Value
type ArrV []Value
type Tuple []Value

type IfaceV struct {
	t types.Type // nil for nil interface
	v Value
}

// SliceV: either dense (Go slice of cells shared with the backing array) or sparse (symbolic or
// huge length byte slab touched only at concrete offsets).
type SliceV struct {
	dense []Value // backing from this slice's start up to cap (len(dense) == cap)
	sp    *Sparse
	off   int64 // offset of element 0 inside sp
	len   *Term // 64-bit
	cap   *Term
	tok   interface{} // opaque payload handle (msgpack identity stub etc.)
	num   *NumTag
}

type Sparse struct {
	cells  map[int64]*Value
	length *Term
	zero   func() Value
	mk     func(i int64) Value // optional: lazily created symbolic content
}

func (s *Sparse) cell(i int64) *Value {
	if p, ok := s.cells[i]; ok {
		return p
	}
	p := new(Value)
	if s.mk != nil {
		*p = s.mk(i)
	} else {
		*p = s.zero()
	}
	s.cells[i] = p
	return p
}

func (s *SliceV) isNil() bool { return s == nil || (s.dense == nil && s.sp == nil) }

type mapEnt struct {
	k    Value
	v    *Value
	live bool
}

type MapV struct {
	ents []*mapEnt
	t    *types.Map
}

type Closure struct {
	fn  *ssa.Function
	env []Value
}

type ChanV struct {
	buf    []Value
	cap    int
	closed bool
	elemT  types.Type
}

// Opaque is a native model object (roaring bitmap, btree, timers, …) living behind a pointer.
type Opaque struct {
	kind string
	data interface{}
}

// UnsafePtr wraps a pointer converted to unsafe.Pointer.
type UnsafePtr struct{ p Value }

// targetPanic is a Go panic raised by the interpreted program.
type targetPanic struct {
	v     Value
	msg   string
	where string
}

// engineError: unsupported construct / internal error -> path is inconclusive.
type engineError struct{ msg string }

func (e engineError) Error() string { return e.msg }

func engineErr(f string, a ...interface{}) engineError { return engineError{fmt.Sprintf(f, a...)} }

// pathEnd terminates the current path (infeasible assumption, unwinding failure, …).
type pathEnd struct {
	kind string
	msg  string
}

// ---------------------------------------------------------------- helpers

func basicWidth(b *types.Basic) int {
	switch b.Kind() {
	case types.Bool, types.UntypedBool:
		return 0
	case types.Int8, types.Uint8:
		return 8
	case types.Int16, types.Uint16:
		return 16
	case types.Int32, types.Uint32, types.UntypedRune:
		return 32
	case types.Int, types.Uint, types.Int64, types.Uint64, types.Uintptr, types.UntypedInt:
		return 64
	case types.Float64, types.UntypedFloat:
		return WF64
	case types.Float32:
		return WF32
	}
	return -1
}

func isSigned(t types.Type) bool {
	if b, ok := t.Underlying().(*types.Basic); ok {
		return b.Info()&types.IsUnsigned == 0 && b.Info()&types.IsInteger != 0
	}
	return false
}

func isByteSliceType(t types.Type) bool {
	if s, ok := t.Underlying().(*types.Slice); ok {
		if b, ok := s.Elem().Underlying().(*types.Basic); ok {
			return b.Kind() == types.Uint8
		}
	}
	return false
}

func (ex *Exec) zero(t types.Type) Value {
	switch t := t.Underlying().(type) {
	case *types.Basic:
		switch {
		case t.Kind() == types.String || t.Kind() == types.UntypedString:
			return ex.emptyStr
		case t.Kind() == types.UnsafePointer:
			return UnsafePtr{nil}
		case t.Kind() == types.UntypedNil:
			return nil
		case t.Info()&types.IsComplex != 0:
			panic(engineErr("complex numbers unsupported"))
		}
		w := basicWidth(t)
		if w < 0 && w != WF64 && w != WF32 {
			panic(engineErr("zero: unsupported basic %s", t))
		}
		if w < 0 {
			return ex.tc.FConst(w, 0)
		}
		return ex.tc.Const(w, 0)
	case *types.Pointer:
		return (*Value)(nil)
	case *types.Struct:
		s := make(StructV, t.NumFields())
		for i := range s {
			s[i] = ex.zero(t.Field(i).Type())
		}
		return s
	case *types.Array:
		n := t.Len()
		if n > 1<<16 {
			panic(engineErr("array too large: %d", n))
		}
		a := make(ArrV, n)
		for i := range a {
			a[i] = ex.zero(t.Elem())
		}
		return a
	case *types.Slice:
		return (*SliceV)(nil)
	case *types.Map:
		return (*MapV)(nil)
	case *types.Interface:
		return IfaceV{}
	case *types.Signature:
		return nil
	case *types.Chan:
		return (*ChanV)(nil)
	case *types.Tuple:
		if t.Len() == 1 {
			return ex.zero(t.At(0).Type())
		}
		tu := make(Tuple, t.Len())
		for i := range tu {
			tu[i] = ex.zero(t.At(i).Type())
		}
		return tu
	}
	panic(engineErr("zero: unsupported type %s", t))
}

// copyVal makes value-semantics copies of aggregates.
func copyVal(v Value) Value {
	switch v := v.(type) {
	case StructV:
		n := make(StructV, len(v))
		for i, x := range v {
			n[i] = copyVal(x)
		}
		return n
	case ArrV:
		n := make(ArrV, len(v))
		for i, x := range v {
			n[i] = copyVal(x)
		}
		return n
	case Tuple:
		panic("copy of tuple")
	}
	return v
}

// store writes v into *addr keeping the identity of nested aggregate cells.
func store(addr *Value, v Value) {
	switch rhs := v.(type) {
	case StructV:
		lhs, ok := (*addr).(StructV)
		if !ok || len(lhs) != len(rhs) {
			*addr = copyVal(v)
			return
		}
		for i := range lhs {
			store(&lhs[i], rhs[i])
		}
	case ArrV:
		lhs, ok := (*addr).(ArrV)
		if !ok || len(lhs) != len(rhs) {
			*addr = copyVal(v)
			return
		}
		for i := range lhs {
			store(&lhs[i], rhs[i])
		}
	default:
		*addr = v
	}
}

func (ex *Exec) mkStr(s string) *StrV {
	if s == "" && ex.emptyStr != nil {
		return ex.emptyStr
	}
	if v, ok := ex.strCache[s]; ok {
		return v
	}
	b := make([]*Term, len(s))
	for i := 0; i < len(s); i++ {
		b[i] = ex.tc.Const(8, uint64(s[i]))
	}
	v := &StrV{b: b}
	if len(s) < 64 {
		ex.strCache[s] = v
	}
	return v
}

// conc returns the concrete Go string if all bytes are constants.
func (s *StrV) conc() (string, bool) {
	var sb strings.Builder
	for _, t := range s.b {
		if !t.IsConst() {
			return "", false
		}
		sb.WriteByte(byte(t.val))
	}
	return sb.String(), true
}

func (s *StrV) String() string {
	if c, ok := s.conc(); ok {
		return c
	}
	var sb strings.Builder
	for _, t := range s.b {
		if t.IsConst() {
			sb.WriteByte(byte(t.val))
		} else {
			sb.WriteString("{" + t.String() + "}")
		}
	}
	return sb.String()
}

func (ex *Exec) i64(v int64) *Term  { return ex.tc.Const(64, uint64(v)) }
func (ex *Exec) u8(v byte) *Term    { return ex.tc.Const(8, uint64(v)) }
func (ex *Exec) boolT(b bool) *Term { return ex.tc.Bool(b) }

// mkByteSlice makes a dense byte slice from terms.
func (ex *Exec) mkByteSlice(b []*Term) *SliceV {
	d := make([]Value, len(b))
	for i, t := range b {
		d[i] = t
	}
	n := ex.i64(int64(len(b)))
	return &SliceV{dense: d, len: n, cap: n}
}

func (ex *Exec) mkDenseSlice(d []Value) *SliceV {
	n := ex.i64(int64(len(d)))
	return &SliceV{dense: d, len: n, cap: n}
}

// sliceLen returns the concrete length of a slice (concretising if necessary).
func (ex *Exec) sliceLen(s *SliceV) int64 {
	if s.isNil() {
		return 0
	}
	return int64(ex.concretize(s.len, "slice length"))
}

// elem returns the cell of element i (concrete) of slice s; bounds must have been checked.
func (s *SliceV) elem(i int64) *Value {
	if s.sp != nil {
		return s.sp.cell(s.off + i)
	}
	return &s.dense[i]
}

// bytesOf returns the byte terms of a []byte slice value.
func (ex *Exec) bytesOf(s *SliceV) []*Term {
	n := ex.sliceLen(s)
	out := make([]*Term, n)
	for i := int64(0); i < n; i++ {
		out[i] = (*s.elem(i)).(*Term)
	}
	return out
}

func typeString(t types.Type) string {
	if t == nil {
		return "<nil>"
	}
	return types.TypeString(t, nil)
}

// describe renders a value for messages and samples.
func describe(v Value) string {
	return describeD(v, 3)
}

func describeD(v Value, d int) string {
	if d == 0 {
		return "…"
	}
	switch v := v.(type) {
	case nil:
		return "nil"
	case *Term:
		return v.String()
	case *StrV:
		return fmt.Sprintf("%q", v.String())
	case StructV:
		var parts []string
		for _, x := range v {
			parts = append(parts, describeD(x, d-1))
		}
		return "{" + strings.Join(parts, ",") + "}"
	case ArrV:
		return fmt.Sprintf("[%d]…", len(v))
	case Tuple:
		var parts []string
		for _, x := range v {
			parts = append(parts, describeD(x, d-1))
		}
		return "(" + strings.Join(parts, ",") + ")"
	case IfaceV:
		if v.t == nil {
			return "nil"
		}
		return typeString(v.t) + ":" + describeD(v.v, d-1)
	case *Value:
		if v == nil {
			return "nil"
		}
		return "&" + describeD(*v, d-1)
	case *SliceV:
		if v.isNil() {
			return "[]nil"
		}
		return fmt.Sprintf("slice(len=%s)", v.len)
	case *MapV:
		if v == nil {
			return "map(nil)"
		}
		return fmt.Sprintf("map(%d)", len(v.ents))
	case *Closure:
		return "closure:" + v.fn.String()
	case *ssa.Function:
		return "func:" + v.String()
	case *Opaque:
		return "opaque:" + v.kind
	}
	return fmt.Sprintf("%T", v)
}
