package main

// Path exploration: stateless DFS over decision prefixes with a pool of workers, each owning one
// solver process.

import (
	"fmt"
	"os"
	"path/filepath"
	"runtime/debug"
	"sort"
	"strings"
	"sync"
	"time"

	"golang.org/x/tools/go/ssa"
)

type PathSample struct {
	Harness   string            `json:"harness"`
	Shape     string            `json:"shape"`
	Decisions int               `json:"decisions"`
	Steps     int64             `json:"steps"`
	End       string            `json:"end"`
	Inputs    []InputRec        `json:"inputs,omitempty"`
	Observed  map[string]uint64 `json:"observed,omitempty"`
	obsOrder  []ObsRec
}

type ObsRec struct {
	Name string `json:"name"`
	Val  uint64 `json:"val"`
	term *Term
}

type HarnessResult struct {
	Harness      string
	Paths        int
	Completed    int
	Infeasible   int
	EndKinds     map[string]int
	Decisions    int
	Forced       int
	Steps        int64
	Obligations  int
	Discharged   int
	Trivial      int
	Unknown      int
	UnwindFails  int
	EngineErrors map[string]int
	Violations   []Violation
	Reached      map[string]int
	Funcs        map[string]bool
	Stubs        map[string]int
	Queries      int
	SolverTime   time.Duration
	SlowQueries  int
	MaxQuery     time.Duration
	Wall         time.Duration
	Samples      []PathSample
	Validate     []PathSample // completed paths with models, to be validated against the native code
	Budget       bool         // path budget exhausted
	Notes        map[string]int
	MaxDepth     int
	Shapes       map[string]int
}

type workItem struct {
	prefix []uint64
}

type Explorer struct {
	eng       *Engine
	fn        *ssa.Function
	name      string
	maxPaths  int
	deadline  time.Time
	workers   int
	nValidate int

	mu      sync.Mutex
	cond    *sync.Cond
	stack   []workItem
	active  int
	res     *HarnessResult
	violKey map[string]int
	stop    bool
}

func (e *Engine) Explore(fn *ssa.Function, name string, workers, maxPaths int, deadline time.Time, nValidate int) *HarnessResult {
	x := &Explorer{eng: e, fn: fn, name: name, maxPaths: maxPaths, deadline: deadline, workers: workers, nValidate: nValidate}
	x.cond = sync.NewCond(&x.mu)
	x.res = &HarnessResult{Harness: name, EndKinds: map[string]int{}, EngineErrors: map[string]int{}, Reached: map[string]int{},
		Funcs: map[string]bool{}, Stubs: map[string]int{}, Notes: map[string]int{}, Shapes: map[string]int{}}
	x.violKey = map[string]int{}
	x.stack = []workItem{{nil}}
	t0 := time.Now()
	done := make(chan struct{})
	if os.Getenv("VERIF_PROGRESS") != "" {
		go func() {
			tk := time.NewTicker(10 * time.Second)
			defer tk.Stop()
			for {
				select {
				case <-done:
					return
				case <-tk.C:
					x.mu.Lock()
					fmt.Fprintf(os.Stderr, "[%s %.0fs] paths=%d stack=%d active=%d ends=%v viol=%d\n", name, time.Since(t0).Seconds(), x.res.Paths, len(x.stack), x.active, x.res.EndKinds, len(x.res.Violations))
					x.mu.Unlock()
				}
			}
		}()
	}
	defer close(done)
	var wg sync.WaitGroup
	for i := 0; i < workers; i++ {
		wg.Add(1)
		go func(id int) {
			defer wg.Done()
			x.worker(id)
		}(i)
	}
	wg.Wait()
	x.res.Wall = time.Since(t0)
	return x.res
}

func (x *Explorer) worker(id int) {
	var logw *os.File
	if d := x.eng.opts.SolverLogDir; d != "" {
		logw, _ = os.Create(filepath.Join(d, fmt.Sprintf("%s-w%d.smt2", strings.ReplaceAll(x.name, "/", "_"), id)))
		defer logw.Close()
	}
	var sol *Solver
	var err error
	if logw != nil {
		sol, err = NewSolver(x.eng.opts.SolverBin, x.eng.opts.TimeoutMs, logw)
	} else {
		sol, err = NewSolver(x.eng.opts.SolverBin, x.eng.opts.TimeoutMs, nil)
	}
	if err != nil {
		x.mu.Lock()
		x.res.EngineErrors["solver start: "+err.Error()]++
		x.stop = true
		x.cond.Broadcast()
		x.mu.Unlock()
		return
	}
	defer func() {
		x.mu.Lock()
		x.res.Queries += sol.Queries
		x.res.SolverTime += sol.Time
		x.res.SlowQueries += sol.Slow
		if sol.MaxTime > x.res.MaxQuery {
			x.res.MaxQuery = sol.MaxTime
		}
		x.mu.Unlock()
		sol.Close()
	}()
	first := true
	for {
		x.mu.Lock()
		for len(x.stack) == 0 && x.active > 0 && !x.stop {
			x.cond.Wait()
		}
		if x.stop || (len(x.stack) == 0 && x.active == 0) {
			x.cond.Broadcast()
			x.mu.Unlock()
			return
		}
		if x.res.Paths >= x.maxPaths || time.Now().After(x.deadline) {
			x.res.Budget = true
			x.stop = true
			x.cond.Broadcast()
			x.mu.Unlock()
			return
		}
		it := x.stack[len(x.stack)-1]
		x.stack = x.stack[:len(x.stack)-1]
		x.active++
		x.res.Paths++
		x.mu.Unlock()

		if !first {
			sol.Reset()
		}
		first = false
		ex := NewExec(x.eng, sol, x.name, it.prefix)
		ex.entryPkg = x.fn.Pkg
		end, sample := x.runOne(ex)

		x.mu.Lock()
		x.active--
		x.merge(ex, end, sample)
		for _, a := range ex.alts {
			x.stack = append(x.stack, workItem{a})
		}
		x.cond.Broadcast()
		x.mu.Unlock()
	}
}

// runOne executes the harness along one path; returns how the path ended.
func (x *Explorer) runOne(ex *Exec) (end string, sample *PathSample) {
	defer func() {
		r := recover()
		if ex.threads != nil {
			ex.threads.killAll()
		}
		if r != nil {
			switch p := r.(type) {
			case pathEnd:
				end = p.kind
				if p.kind == "unwind" || p.kind == "steps" || p.kind == "block" || p.kind == "bound" {
					ex.note("%s: %s", p.kind, p.msg)
				}
			case engineError:
				end = "engine-error"
				ex.extra["engineError"] = p.msg
			case targetPanic:
				end = "panic"
				if !ex.replaying() {
					r := ex.sol.CheckSat()
					if r != Unsat {
						label := "panic"
						if p.where != "" {
							label = "panic:" + p.where
						}
						ex.reportViolation("panic", label, p.msg, r == Sat)
					} else {
						end = "infeasible"
					}
				}
			default:
				end = "engine-error"
				ex.extra["engineError"] = fmt.Sprintf("internal: %v\n%s", r, debug.Stack())
			}
		}
		if end == "ok" {
			sample = x.finish(ex)
		}
	}()
	ex.callSSA(nil, x.fn, nil, nil)
	end = "ok"
	return
}

// finish builds a sample (with a model) of a completed path.
func (x *Explorer) finish(ex *Exec) *PathSample {
	s := &PathSample{Harness: x.name, Shape: ex.shape(), Decisions: len(ex.decs), Steps: ex.stats.Steps, End: "ok"}
	x.mu.Lock()
	need := len(x.res.Validate) < x.nValidate || len(x.res.Samples) < 3
	x.mu.Unlock()
	if !need {
		return s
	}
	if ex.sol.CheckSat() != Sat {
		return s
	}
	var vars []*Term
	for _, v := range ex.tc.vars {
		ex.sol.Define(v)
		vars = append(vars, v)
	}
	model, err := ex.sol.GetValues(vars)
	if err != nil {
		return s
	}
	for _, in := range ex.inputs {
		r := in
		if in.term != nil {
			r.Val = model[in.term.name]
		}
		s.Inputs = append(s.Inputs, r)
	}
	memo := map[*Term]uint64{}
	okObs := true
	func() {
		defer func() {
			if r := recover(); r != nil {
				okObs = false
			}
		}()
		if obs, ok := ex.extra["observed"].([]ObsRec); ok {
			for _, o := range obs {
				v := o.term.eval(model, memo)
				s.obsOrder = append(s.obsOrder, ObsRec{Name: o.Name, Val: v})
			}
		}
	}()
	if !okObs {
		s.obsOrder = nil
	}
	return s
}

func (x *Explorer) merge(ex *Exec, end string, sample *PathSample) {
	r := x.res
	r.EndKinds[end]++
	if end == "ok" {
		r.Completed++
	}
	if end == "infeasible" {
		r.Infeasible++
	}
	r.Decisions += ex.stats.Decisions
	r.Forced += ex.stats.Forced
	r.Steps += ex.stats.Steps
	r.Obligations += ex.stats.Obligations
	r.Discharged += ex.stats.Discharged
	r.Trivial += ex.stats.Trivial
	r.Unknown += ex.stats.Unknown
	r.UnwindFails += ex.stats.UnwindFails
	if len(ex.decs) > r.MaxDepth {
		r.MaxDepth = len(ex.decs)
	}
	for k, v := range ex.stats.Reached {
		r.Reached[k] += v
	}
	for k := range ex.funcs {
		r.Funcs[k] = true
	}
	for k, v := range ex.stubHits {
		r.Stubs[k] += v
	}
	for _, n := range ex.notes {
		r.Notes[n]++
	}
	if end == "engine-error" {
		msg, _ := ex.extra["engineError"].(string)
		r.EngineErrors[msg]++
	}
	if end == "ok" || end == "violated" || end == "panic" || end == "nonterm" {
		r.Shapes[ex.shape()]++
	}
	for _, v := range ex.viol {
		k := v.Label + "|" + v.Shape
		x.violKey[k]++
		if x.violKey[k] <= 2 && len(r.Violations) < 400 {
			r.Violations = append(r.Violations, v)
		}
	}
	if sample != nil {
		if len(r.Samples) < 3 {
			r.Samples = append(r.Samples, *sample)
		}
		if sample.Inputs != nil && len(r.Validate) < x.nValidate {
			r.Validate = append(r.Validate, *sample)
		}
	}
}

func sortedCounts(m map[string]int) []string {
	var ks []string
	for k := range m {
		ks = append(ks, k)
	}
	sort.Strings(ks)
	var out []string
	for _, k := range ks {
		out = append(out, fmt.Sprintf("%s ×%d", k, m[k]))
	}
	return out
}
