package main

// One long-lived SMT solver process per worker ("z3 -in"); incremental use with push/pop and
// (reset) between runs. Any "(error" line makes the answer inconclusive.

import (
	"bufio"
	"fmt"
	"io"
	"os"
	"os/exec"
	"strconv"
	"strings"
	"time"
)

var slowLog = os.Getenv("VERIF_SLOWLOG") != ""

type SatResult int

const (
	Unsat SatResult = iota
	Sat
	Unknown
)

func (r SatResult) String() string { return [...]string{"unsat", "sat", "unknown"}[r] }

type Solver struct {
	cmd     *exec.Cmd
	in      io.WriteCloser
	w       *bufio.Writer
	out     *bufio.Reader
	bin     string
	args    []string
	Queries int
	NSat    int
	NUnsat  int
	NUnk    int
	Time    time.Duration
	MaxTime time.Duration
	Slow    int
	recent  []string
	logw    io.Writer
	timeout int
	seq     int
}

func NewSolver(bin string, timeoutMs int, logw io.Writer) (*Solver, error) {
	s := &Solver{bin: bin, logw: logw, timeout: timeoutMs}
	switch {
	case strings.Contains(bin, "cvc5"):
		s.args = []string{"--incremental", "--lang=smt2", "--produce-models", fmt.Sprintf("--tlimit-per=%d", timeoutMs)}
	default:
		s.args = []string{"-in", "-smt2"}
	}
	if err := s.start(); err != nil {
		return nil, err
	}
	return s, nil
}

func (s *Solver) start() error {
	s.cmd = exec.Command(s.bin, s.args...)
	in, err := s.cmd.StdinPipe()
	if err != nil {
		return err
	}
	out, err := s.cmd.StdoutPipe()
	if err != nil {
		return err
	}
	s.cmd.Stderr = nil
	if err := s.cmd.Start(); err != nil {
		return err
	}
	s.in = in
	s.w = bufio.NewWriterSize(in, 1<<16)
	s.out = bufio.NewReaderSize(out, 1<<16)
	s.preamble()
	return nil
}

func (s *Solver) preamble() {
	if !strings.Contains(s.bin, "cvc5") {
		if os.Getenv("VERIF_NOTIMEOUT") == "" { s.send(fmt.Sprintf("(set-option :timeout %d)", s.timeout)) }
		s.send("(set-option :produce-models true)")
	} else {
		s.send("(set-logic ALL)")
	}
}

func (s *Solver) Close() {
	if s.cmd != nil {
		s.w.Flush()
		s.in.Close()
		s.cmd.Process.Kill()
		s.cmd.Wait()
		s.cmd = nil
	}
}

func (s *Solver) send(line string) {
	if slowLog {
		s.recent = append(s.recent, line)
		if len(s.recent) > 60 {
			s.recent = s.recent[len(s.recent)-40:]
		}
	}
	if s.logw != nil {
		fmt.Fprintln(s.logw, line)
	}
	s.w.WriteString(line)
	s.w.WriteByte('\n')
}

func (s *Solver) Reset() {
	s.send("(reset)")
	s.preamble()
}

// readSexp reads one complete answer (a line, or a balanced s-expression spanning lines).
func (s *Solver) readSexp() (string, error) {
	s.w.Flush()
	var sb strings.Builder
	depth := 0
	for {
		line, err := s.out.ReadString('\n')
		if err != nil {
			return sb.String(), err
		}
		sb.WriteString(line)
		inStr := false
		for _, ch := range line {
			switch {
			case ch == '"':
				inStr = !inStr
			case inStr:
			case ch == '(':
				depth++
			case ch == ')':
				depth--
			}
		}
		if depth <= 0 && strings.TrimSpace(sb.String()) != "" {
			return strings.TrimSpace(sb.String()), nil
		}
	}
}

// exchange sends a command that produces exactly one answer, followed by an echo marker, and reads up to the marker.
// Anything the solver printed besides the one answer (an "(error" for an earlier assert or definition, which
// produce no output when they succeed) is returned as stray output: the caller must treat the query as inconclusive.
func (s *Solver) exchange(cmd string) (ans string, stray []string, err error) {
	s.seq++
	marker := fmt.Sprintf("@@%d", s.seq)
	s.send(cmd)
	s.send("(echo \"" + marker + "\")")
	var got []string
	for {
		a, e := s.readSexp()
		if e != nil {
			return "", nil, e
		}
		if strings.Trim(a, "\"") == marker {
			break
		}
		got = append(got, a)
	}
	if len(got) == 0 {
		return "", nil, fmt.Errorf("solver gave no answer to %s", cmd)
	}
	return got[len(got)-1], got[:len(got)-1], nil
}

func (s *Solver) CheckSat() SatResult {
	t0 := time.Now()
	ans, stray, err := s.exchange("(check-sat)")
	if err == nil && len(stray) > 0 {
		panic(engineErr("solver error before check-sat: %s", strings.Join(stray, " ")))
	}
	dt := time.Since(t0)
	s.Time += dt
	s.Queries++
	if dt > s.MaxTime {
		s.MaxTime = dt
	}
	if dt > time.Second {
		s.Slow++
		if slowLog && dt > 3*time.Second {
			fmt.Fprintf(os.Stderr, "SLOW QUERY %.1fs (%s):\n  %s\n", dt.Seconds(), ans, strings.Join(s.recent, "\n  "))
		}
	}
	if err != nil {
		// solver died: restart, report unknown
		s.Close()
		s.start()
		s.NUnk++
		return Unknown
	}
	switch {
	case ans == "sat":
		s.NSat++
		return Sat
	case ans == "unsat":
		s.NUnsat++
		return Unsat
	}
	if strings.HasPrefix(ans, "(error") {
		panic(engineErr("solver error: %s", ans))
	}
	s.NUnk++
	return Unknown
}

// GetValues returns the model values of the given variables (bit-vectors/bools as uint64).
func (s *Solver) GetValues(vars []*Term) (map[string]uint64, error) {
	res := make(map[string]uint64)
	const chunk = 200
	for i := 0; i < len(vars); i += chunk {
		j := i + chunk
		if j > len(vars) {
			j = len(vars)
		}
		var sb strings.Builder
		sb.WriteString("(get-value (")
		for _, v := range vars[i:j] {
			sb.WriteString(v.name)
			sb.WriteString(" ")
		}
		sb.WriteString("))")
		ans, stray, err := s.exchange(sb.String())
		if err != nil {
			return nil, err
		}
		if len(stray) > 0 {
			return nil, fmt.Errorf("solver: %s", strings.Join(stray, " "))
		}
		if strings.HasPrefix(ans, "(error") {
			return nil, fmt.Errorf("solver: %s", ans)
		}
		parseValues(ans, res)
	}
	return res, nil
}

// parseValues parses ((name value) (name value) ...) with values #x.., #b.., true/false, (_ bvN w).
func parseValues(ans string, res map[string]uint64) {
	toks := tokenize(ans)
	// skip leading "("
	i := 0
	if i < len(toks) && toks[i] == "(" {
		i++
	}
	for i < len(toks) {
		if toks[i] != "(" {
			i++
			continue
		}
		i++
		if i >= len(toks) {
			break
		}
		name := toks[i]
		i++
		if i >= len(toks) {
			break
		}
		var v uint64
		switch {
		case toks[i] == "true":
			v = 1
			i++
		case toks[i] == "false":
			v = 0
			i++
		case strings.HasPrefix(toks[i], "#x"):
			v, _ = strconv.ParseUint(toks[i][2:], 16, 64)
			i++
		case strings.HasPrefix(toks[i], "#b"):
			v, _ = strconv.ParseUint(toks[i][2:], 2, 64)
			i++
		case toks[i] == "(":
			// (_ bvN w) or fp literal: skip to matching paren
			depth := 0
			start := i
			for i < len(toks) {
				if toks[i] == "(" {
					depth++
				} else if toks[i] == ")" {
					depth--
					if depth == 0 {
						i++
						break
					}
				}
				i++
			}
			if start+2 < len(toks) && toks[start+1] == "_" && strings.HasPrefix(toks[start+2], "bv") {
				v, _ = strconv.ParseUint(toks[start+2][2:], 10, 64)
			}
		default:
			i++
		}
		res[name] = v
		// skip closing paren
		if i < len(toks) && toks[i] == ")" {
			i++
		}
	}
}

func tokenize(s string) []string {
	var toks []string
	cur := strings.Builder{}
	flush := func() {
		if cur.Len() > 0 {
			toks = append(toks, cur.String())
			cur.Reset()
		}
	}
	inBar := false
	for _, ch := range s {
		if inBar {
			cur.WriteRune(ch)
			if ch == '|' {
				inBar = false
			}
			continue
		}
		switch ch {
		case '|':
			cur.WriteRune(ch)
			inBar = true
		case '(', ')':
			flush()
			toks = append(toks, string(ch))
		case ' ', '\n', '\t', '\r':
			flush()
		default:
			cur.WriteRune(ch)
		}
	}
	flush()
	return toks
}

// ---- term emission

// Define makes sure term t (and its sub-terms) are known to the solver. Must be called at push level 0
// relative to the definitions (we always define before pushing).
func (s *Solver) Define(t *Term) {
	if t == nil || t.defined || t.op == OConst {
		return
	}
	if t.op == OVar {
		s.send(fmt.Sprintf("(declare-const %s %s)", t.name, sortSMT(int(t.w))))
		t.defined = true
		return
	}
	// iterative post-order to avoid deep recursion on long chains
	type fr struct {
		t *Term
		k int
	}
	stack := []fr{{t, 0}}
	for len(stack) > 0 {
		f := &stack[len(stack)-1]
		kids := [3]*Term{f.t.a, f.t.b, f.t.c}
		if f.k < 3 {
			k := kids[f.k]
			f.k++
			if k != nil && !k.defined && k.op != OConst {
				if k.op == OVar {
					s.send(fmt.Sprintf("(declare-const %s %s)", k.name, sortSMT(int(k.w))))
					k.defined = true
				} else {
					stack = append(stack, fr{k, 0})
				}
			}
			continue
		}
		if !f.t.defined {
			s.send(fmt.Sprintf("(define-fun t%d () %s %s)", f.t.id, sortSMT(int(f.t.w)), bodySMT(f.t)))
			f.t.defined = true
		}
		stack = stack[:len(stack)-1]
	}
}

func (s *Solver) Assert(t *Term) {
	s.Define(t)
	s.send("(assert " + ref(t) + ")")
}

// CheckWith checks satisfiability of the current assertions plus extra.
func (s *Solver) CheckWith(extra *Term) SatResult {
	s.Define(extra)
	s.send("(push 1)")
	s.send("(assert " + ref(extra) + ")")
	r := s.CheckSat()
	s.send("(pop 1)")
	return r
}
