#!/usr/bin/env python3
# Generates MANIFEST.json from harness/props.json and manifest_meta.json (per-property texts).
import json, os
here = os.path.dirname(os.path.abspath(__file__))
props = json.load(open(os.path.join(here, "harness/props.json")))["props"]
meta = json.load(open(os.path.join(here, "manifest_meta.json")))
allids = [json.loads(l)["id"] for l in open(os.path.join(here, "properties.jsonl"))]
checks = []
na = []
for pid in allids:
    m = meta.get(pid, {})
    if pid in props and not m.get("not_applicable"):
        checks.append({
            "property_id": pid,
            "quick_cmd": "./check %s quick" % pid,
            "thorough_cmd": "./check %s thorough" % pid,
            "evidence_file": "evidence/%s.json" % pid,
            "replay_cmd_template": "./check %s --replay {path}" % pid,
            "engine": "symgo",
            "level_claimed": {"category": "model_checking", "text": m.get("level_text", ""), "design_ref": "DESIGN.md section 3, " + pid},
            "level_note": m.get("level_note", ""),
            "technique": m.get("technique", "bounded symbolic execution of the real Go SSA, path conditions and assertions decided by z3 (SMT, bit-vectors), native replay of counterexamples"),
        })
    else:
        na.append({"property_id": pid, "reason": m.get("not_applicable", "no check built yet for this property")})
man = {
    "version": 1,
    "setup_cmd": "./setup.sh",
    "hooks": {
        "guard": "verif",
        "enable": "harness files (//go:build verif) are injected into /repo packages through a go/packages Overlay and `go test -overlay -tags verif`; nothing is written into /repo",
        "baseline_off_cmd": "cd /repo && GOFLAGS=-mod=mod GOPROXY=off go test -json -vet=off -count=1 -timeout 25m ./...",
        "source_commits": [],
        "add_only": True,
    },
    "engines": [{"name": "symgo", "path": "engine", "serves_properties": [c["property_id"] for c in checks],
                 "kind_free_text": "symbolic interpreter for go/ssa (x/tools v0.29.0) with stateless DFS over decision prefixes; path feasibility and assertions decided by z3 -in (QF_ABV-style bit-vector terms, FP for float comparisons); counterexamples replayed natively with go test -overlay"}],
    "checks": checks,
    "not_applicable": na,
    "notes": "exit codes: 0 held on everything explored, 1 VIOLATION (replayed natively), 2 inconclusive (engine error, solver unknown, bound not completed, unconfirmed counterexample). Known findings: known-findings.txt.",
}
json.dump(man, open(os.path.join(here, "MANIFEST.json"), "w"), indent=1)
print("checks:", [c["property_id"] for c in checks], "na:", len(na))
