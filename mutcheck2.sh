#!/bin/sh
# ./mutcheck2.sh <patch.diff> <prop> [tier] [extra check args]: like mutcheck.sh but on a scratch worktree (/tmp/wt/mut.$$),
# so that it can run while /repo is in use; the check reads the tree through VERIF_REPO.
patch="$1"; prop="$2"; tier="${3:-quick}"; shift 3 2>/dev/null
mkdir -p /tmp/wt
wt=/tmp/wt/mut.$$
git -C /repo worktree add -q --detach $wt HEAD || exit 2
git -C $wt apply "$patch" || { echo "patch does not apply"; git -C /repo worktree remove --force $wt; exit 2; }
cd /verif
VERIF_REPO=$wt timeout 3600 ./check "$prop" "$tier" "$@" > out/mut2.$$.log 2>&1
rc=$?
git -C /repo worktree remove --force $wt
grep -E "^(VIOLATION|OK|INCONCLUSIVE|UNCONFIRMED|KNOWN|VALIDATION)" out/mut2.$$.log | cut -c1-260 | head -8
grep -E "^  harness=" out/mut2.$$.log | cut -c1-260 | head -4
echo "exit=$rc"
rm -f out/mut2.$$.log
