#!/bin/sh
# ./quick_all.sh: run every property's quick check on /repo's working tree, one after the other (regenerates evidence/)
cd /verif
: > out/quick.summary
for id in C01 C02 C03 C04 C05 C06 C07 C08 C09 C10 C11 C12 C13 C14 C15 C16 C17 C18 C19 C20; do
  t0=$(date +%s)
  ./check $id quick > out/quick.$id.log 2>&1
  rc=$?
  t1=$(date +%s)
  echo "$id rc=$rc secs=$((t1-t0)) :: $(grep -E '^(OK|VIOLATION|INCONCLUSIVE|UNCONFIRMED|NOTE)' out/quick.$id.log | head -3 | cut -c1-160 | tr '\n' ' ')" >> out/quick.summary
done
