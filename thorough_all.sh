#!/bin/sh
# ./thorough_all.sh <ids...>: run thorough checks on a clean scratch worktree (VERIF_REPO), log wall time and verdict
cd /verif
# needs a clean scratch worktree of /repo HEAD: git -C /repo worktree add --detach ${CLEAN:-/tmp/wt/clean} HEAD
for id in "$@"; do
  t0=$(date +%s)
  VERIF_REPO=${CLEAN:-/tmp/wt/clean} timeout 9000 ./check $id thorough > out/thorough.$id.log 2>&1
  rc=$?
  t1=$(date +%s)
  echo "$id rc=$rc secs=$((t1-t0)) :: $(grep -E '^(OK|VIOLATION|INCONCLUSIVE|UNCONFIRMED)' out/thorough.$id.log | head -2 | cut -c1-200 | tr '\n' ' ')" >> out/thorough.summary
done
