#!/bin/sh
# Builds the symgo engine offline from the module cache and runs its conformance suite.
set -e
cd "$(dirname "$0")"
export GOFLAGS=-mod=mod GOPROXY=off GOSUMDB=off GOTOOLCHAIN=local
mkdir -p out/bin evidence
(cd engine && go build -o ../out/bin/symgo .)
./out/bin/symgo selftest
echo setup ok
