#!/bin/sh
# ./mutcheck.sh <patch.diff> <prop> [tier] [extra check args]: apply a seeded change to /repo, run the check, undo.
patch="$1"; prop="$2"; tier="${3:-quick}"; shift 3 2>/dev/null
cd /repo || exit 2
if [ -n "$(git status --porcelain)" ]; then echo "repo dirty"; exit 2; fi
git apply "$patch" || { echo "patch does not apply"; exit 2; }
cd /verif
timeout 3600 ./check "$prop" "$tier" "$@" > out/mut.$$.log 2>&1
rc=$?
git -C /repo checkout -- . 
grep -E "^(VIOLATION|OK|INCONCLUSIVE|UNCONFIRMED|KNOWN|VALIDATION)" out/mut.$$.log | cut -c1-260 | head -12
grep -E "^  harness=" out/mut.$$.log | cut -c1-260 | head -6
echo "exit=$rc"
rm -f out/mut.$$.log
