#!/bin/sh
# ./confirm_seed.sh <seed-dir> <pkgdir> <run-regex> : in a fresh scratch worktree, confirm that the demo fails with the
# patch and passes without it, and that the package's existing tests still pass with the patch.
seed="$1"; pkg="$2"; run="$3"
export GOFLAGS=-mod=mod GOPROXY=off GOSUMDB=off GOTOOLCHAIN=local
mkdir -p /tmp/wt
wt=/tmp/wt/confirm.$$
git -C /repo worktree add -q --detach $wt HEAD || exit 2
cd $wt
cp "$seed/demo_test.go" "$pkg/zz_seed_demo_test.go"
go test -vet=off -count=1 -run "$run" "./$pkg" > /tmp/wt/confirm.$$.without.log 2>&1; rc_without=$?
git apply "$seed/patch.diff" || { echo "patch does not apply"; cd /; git -C /repo worktree remove --force $wt; exit 2; }
go build ./... > /tmp/wt/confirm.$$.build.log 2>&1; rc_build=$?
go test -vet=off -count=1 -run "$run" "./$pkg" > /tmp/wt/confirm.$$.with.log 2>&1; rc_with=$?
rm -f "$pkg/zz_seed_demo_test.go"
go test -vet=off -count=1 "./$pkg" > /tmp/wt/confirm.$$.pkg.log 2>&1; rc_pkg=$?
if [ $rc_pkg -ne 0 ]; then grep -E "^(--- FAIL|FAIL|panic)" /tmp/wt/confirm.$$.pkg.log | head -5; echo "(package tests failed once: re-running, timing-sensitive tests flake under load)"; go test -vet=off -count=1 "./$pkg" > /tmp/wt/confirm.$$.pkg.log 2>&1; rc_pkg=$?; fi
echo "build_with_patch=$rc_build demo_without_patch=$rc_without (want 0) demo_with_patch=$rc_with (want !=0) pkg_tests_with_patch=$rc_pkg (want 0)"
tail -3 /tmp/wt/confirm.$$.with.log
cd /; git -C /repo worktree remove --force $wt; rm -f /tmp/wt/confirm.$$.*
