//go:build verif

package olric

import (
	"context"

	"github.com/olric-data/olric/internal/cluster/balancer"
	"github.com/olric-data/olric/internal/dmap"
)

var vpBalNames = [3]string{"x", "dmap.x", "y"}

// VerifC03_Balancer: the hand-over driven by the real balancer (primaryCopies -> scanPartition -> fragment.Move ->
// the receiver's move handler and merge). Member 0 is the previous owner of the partition and holds key "k" in two
// DMaps whose names are drawn from {x, dmap.x, y} (a name may itself begin with the fragment prefix), with
// different values; the balancer runs until nothing is left to move. Afterwards the new owner holds each DMap's key
// with that DMap's own value, the previous owner holds nothing, and a read through either member returns it.
func VerifC03_Balancer() {
	cl := dmap.VerifNewHandOver()
	vpCl = cl
	ctx := context.Background()
	ai := vpChoose("nameA", len(vpBalNames))
	bi := vpChoose("nameB", len(vpBalNames))
	vpAssume(ai < bi)
	names := [2]string{vpBalNames[ai], vpBalNames[bi]}
	vals := [2][]byte{{'A'}, {'B', 'B'}}
	for i, n := range names {
		cl.PlacePrimary(0, n, "k", vals[i])
	}
	b := balancer.VerifNew(cl.Config(0), cl.Primary(0), cl.Backup(0), cl.RT(0), cl.Log(0))
	for round := 0; round < 6; round++ {
		b.VerifPrimaryCopies()
	}
	for i, n := range names {
		_, stillOld := cl.StoredOn(0, n, "k")
		vpAssert(!stillOld, "previous-owner-drained")
		v, ok := cl.StoredOn(1, n, "k")
		vpAssert(ok, "new-owner-holds-the-key-of-each-dmap")
		if ok {
			vpAssert(vpBytesEq(v, vals[i]), "new-owner-holds-each-dmaps-own-value")
		}
		for m := 0; m < 2; m++ {
			e, err := cl.DMap(m, n).Get(ctx, "k")
			vpAssert(err == nil && vpBytesEq(e.Value(), vals[i]), "read-after-hand-over-returns-the-dmaps-value")
		}
	}
	vpReach("end")
}
