//go:build verif

package olric

import (
	"context"

	"github.com/olric-data/olric/internal/cluster/balancer"
	"github.com/olric-data/olric/internal/dmap"
)

var vpBalNames = [3]string{"x", "dmap.x", "y"}

// VerifC03_Balancer: the hand-over driven by the real balancer (primaryCopies -> scanPartition -> fragment.Move ->
// the receiver's move handler and merge). Member 0 is the previous owner of the partition and holds key "k" in two
// DMaps whose names are drawn from {x, dmap.x, y} (a name may itself begin with the fragment prefix), with
// different values; the balancer runs until nothing is left to move. Afterwards the new owner holds each DMap's key
// with that DMap's own value, the previous owner holds nothing, and a read through either member returns it.
func VerifC03_Balancer() {
	cl := dmap.VerifNewHandOver()
	vpCl = cl
	ctx := context.Background()
	ai := vpChoose("nameA", len(vpBalNames))
	bi := vpChoose("nameB", len(vpBalNames))
	vpAssume(ai < bi)
	names := [2]string{vpBalNames[ai], vpBalNames[bi]}
	vals := [2][]byte{{'A'}, {'B', 'B'}}
	for i, n := range names {
		cl.PlacePrimary(0, n, "k", vals[i])
	}
	b := balancer.VerifNew(cl.Config(0), cl.Primary(0), cl.Backup(0), cl.RT(0), cl.Log(0))
	for round := 0; round < 6; round++ {
		b.VerifPrimaryCopies()
	}
	for i, n := range names {
		_, stillOld := cl.StoredOn(0, n, "k")
		vpAssert(!stillOld, "previous-owner-drained")
		v, ok := cl.StoredOn(1, n, "k")
		vpAssert(ok, "new-owner-holds-the-key-of-each-dmap")
		if ok {
			vpAssert(vpBytesEq(v, vals[i]), "new-owner-holds-each-dmaps-own-value")
		}
		for m := 0; m < 2; m++ {
			e, err := cl.DMap(m, n).Get(ctx, "k")
			vpAssert(err == nil && vpBytesEq(e.Value(), vals[i]), "read-after-hand-over-returns-the-dmaps-value")
		}
	}
	vpReach("end")
}

// VerifC03_BackupMove: a former backup owner (member 3) still holds a backup fragment with two keys; the partition's
// backup owners are members 1 and 2 (ReplicaCount 3), either of which may be unreachable. The real balancer
// (backupCopies -> scanPartition -> fragment.Move with two targets) runs a few passes on member 3. A key leaves
// member 3 only when every current backup owner has it: whatever member 3 no longer holds is present on both.
func VerifC03_BackupMove() {
	cl := dmap.VerifNewBackupHandOver()
	vpCl = cl
	keys := [2]string{"k0", "k1"}
	for i, k := range keys {
		cl.PlaceBackup(3, "d", k, []byte{byte('A' + i)})
	}
	cl.SetDown(1, vpBool("down1"))
	cl.SetDown(2, vpBool("down2"))
	b := balancer.VerifNew(cl.Config(3), cl.Primary(3), cl.Backup(3), cl.RT(3), cl.Log(3))
	for round := 0; round < 3; round++ {
		b.VerifBackupCopies()
	}
	for i, k := range keys {
		if _, still := cl.BackupOn(3, "d", k); still {
			continue
		}
		for _, t := range [2]int{1, 2} {
			v, ok := cl.BackupOn(t, "d", k)
			vpAssert(ok && vpBytesEq(v, []byte{byte('A' + i)}), "key-dropped-by-the-sender-is-on-every-backup-owner")
		}
	}
	vpReach("end")
}
