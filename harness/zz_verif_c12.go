//go:build verif

package olric

import (
	"context"

	"github.com/olric-data/olric/internal/dmap"
)

// VerifC12_ClusterIterator: the client iterators (ClusterIterator.Next/Key over the real DM.SCAN handlers, and the
// embedded client's variant that scans its own member directly) run to
// completion over two partitions whose routes may list a previous primary owner that still holds some keys and a
// replica owner, with a solver-chosen page size and key placement: it terminates, yields every present key exactly
// once and no key that was deleted or never stored.
func VerifC12_ClusterIterator() {
	const parts = 2
	replicas := 1 + vpChoose("replicas", 2)
	prev := vpChoose("prevowner", 2) == 1
	cl := dmap.VerifNewClusterR(parts, replicas, prev)
	cc := vpNewClusterClient(cl, 2, parts)
	ctx := context.Background()
	cdm, err := cc.NewDMap("d")
	vpAssume(err == nil)
	cd := cdm.(*ClusterDMap)
	// keys: two per partition; each is absent, stored on the owner, stored then deleted, or (with a previous owner) still
	// only on the previous owner
	var keys []string
	var present []bool
	for p := uint64(0); p < parts; p++ {
		for j := 0; j < 2; j++ {
			k := cl.KeyForPartition("d", p, j)
			keys = append(keys, k)
			kinds := 3
			if prev {
				kinds = 4
			}
			switch vpChoose("state", kinds) {
			case 0:
				present = append(present, false)
			case 1:
				vpAssume(cl.DMap(int(p)%2, "d").Put(ctx, k, []byte{1}, nil) == nil)
				present = append(present, true)
			case 2:
				vpAssume(cl.DMap(int(p)%2, "d").Put(ctx, k, []byte{1}, nil) == nil)
				_, derr := cl.DMap(int(p)%2, "d").Delete(ctx, k)
				vpAssume(derr == nil)
				present = append(present, false)
			case 3:
				cl.PlacePrimary(1-int(p)%2, "d", k, []byte{2})
				present = append(present, true)
			}
		}
	}
	count := vpRange("count", 1, 3)
	sc := dmap.ScanConfig{HasCount: true, Count: count}
	ictx, cancel := context.WithCancel(ctx)
	rt := make(RoutingTable)
	for p := uint64(0); p < parts; p++ {
		rt[p] = Route{PrimaryOwners: cl.PrimaryOwners(p), ReplicaOwners: cl.BackupOwners(p)}
	}
	it := &ClusterIterator{
		dm:             cd,
		clusterClient:  cc,
		config:         &sc,
		logger:         cc.logger,
		partitionKeys:  make(map[string]struct{}),
		cursors:        make(map[uint64]map[string]*currentCursor),
		routingTable:   rt,
		partitionCount: parts,
		ctx:            ictx,
		cancel:         cancel,
	}
	it.scanner = it.scanOnOwners
	if vpChoose("embedded", 2) == 1 {
		// the embedded client's iterator: the same ClusterIterator with EmbeddedIterator.scanOnOwners as scanner,
		// which scans member 0's own fragments directly and the other member over the wire
		e := &EmbeddedIterator{client: &EmbeddedClient{db: &Olric{rt: cl.RT(0)}}, dm: cl.DMap(0, "d"), clusterIterator: it}
		it.scanner = e.scanOnOwners
	}
	it.loadRoute()
	seen := make([]int, len(keys))
	foreign := 0
	steps := 0
	for it.Next() {
		steps++
		vpAssert(steps <= 24, "iterator-terminates")
		if steps > 24 {
			break
		}
		k := it.Key()
		hit := false
		for i := range keys {
			if keys[i] == k {
				seen[i]++
				hit = true
			}
		}
		if !hit {
			foreign++
		}
	}
	for i := range keys {
		if present[i] {
			vpAssert(seen[i] == 1, "iterator-yields-present-key-exactly-once")
		} else {
			vpAssert(seen[i] == 0, "iterator-never-yields-absent-key")
		}
	}
	vpAssert(foreign == 0, "iterator-yields-nothing-else")
	vpReach("end")
}
