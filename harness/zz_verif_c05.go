//go:build verif

package olric

import (
	"errors"
	"io"
	"log"
	"net"

	"github.com/hashicorp/memberlist"
	"github.com/olric-data/olric/config"
	"github.com/olric-data/olric/internal/discovery"
	"github.com/tidwall/redcon"
)

type vpFNV struct{}

func (vpFNV) Sum64(b []byte) uint64 {
	h := uint64(1469598103934665603)
	for _, c := range b {
		h = (h ^ uint64(c)) * 1099511628211
	}
	return h
}

type vpGateConn struct {
	errs, others int
	msg          string
}

func (c *vpGateConn) RemoteAddr() string             { return "vp" }
func (c *vpGateConn) Close() error                   { return nil }
func (c *vpGateConn) WriteError(msg string)          { c.errs++; c.msg = msg }
func (c *vpGateConn) WriteString(str string)         { c.others++ }
func (c *vpGateConn) WriteBulk(bulk []byte)          { c.others++ }
func (c *vpGateConn) WriteBulkString(bulk string)    { c.others++ }
func (c *vpGateConn) WriteInt(num int)               { c.others++ }
func (c *vpGateConn) WriteInt64(num int64)           { c.others++ }
func (c *vpGateConn) WriteUint64(num uint64)         { c.others++ }
func (c *vpGateConn) WriteArray(count int)           { c.others++ }
func (c *vpGateConn) WriteNull()                     { c.others++ }
func (c *vpGateConn) WriteRaw(data []byte)           { c.others++ }
func (c *vpGateConn) WriteAny(any interface{})       { c.others++ }
func (c *vpGateConn) Context() interface{}           { return nil }
func (c *vpGateConn) SetContext(v interface{})       {}
func (c *vpGateConn) SetReadBuffer(bytes int)        {}
func (c *vpGateConn) Detach() redcon.DetachedConn    { return nil }
func (c *vpGateConn) ReadPipeline() []redcon.Command { return nil }
func (c *vpGateConn) PeekPipeline() []redcon.Command { return nil }
func (c *vpGateConn) NetConn() net.Conn              { return nil }

var vpGateCmds = [][]string{
	{"dm.put", "d", "k", "v"},
	{"dm.get", "d", "k"},
	{"dm.del", "d", "k"},
	{"dm.incr", "d", "n", "1"},
	{"dm.destroy", "d"},
	{"dm.scan", "0", "d", "0"},
	{"publish", "c", "m"},
	{"pubsub", "numpat"},
	{"internal.node.lengthofpart", "0"},
	{"cluster.routingtable"},
	{"stats"},
}

// VerifC05_NewGate: a member built by the real constructor olric.New (all services registered by it), with
// MemberCountQuorum and the number of members it currently sees chosen by the solver and a DMap that was opened while
// the cluster was healthy: every command that arrives over the wire while members < quorum - for the DMap, pub/sub,
// internal and cluster services alike - is answered with exactly one error reply and changes nothing; with the
// quorum met the same commands reach their handlers.
func VerifC05_NewGate() {
	quorum := vpRange("quorum", 1, 3)
	c := &config.Config{
		BindAddr:          "127.0.0.1",
		BindPort:          3320,
		LogOutput:         io.Discard,
		Logger:            log.New(io.Discard, "", 0),
		Hasher:            vpFNV{},
		PartitionCount:    1,
		MemberCountQuorum: int32(quorum),
		MemberlistConfig:  &memberlist.Config{Name: "127.0.0.1:3320", BindAddr: "127.0.0.1", BindPort: 3322, AdvertiseAddr: "127.0.0.1", AdvertisePort: 3322},
	}
	db, err := New(c)
	vpAssume(err == nil)
	this := discovery.Member{Name: "127.0.0.1:3320", ID: 1, Birthdate: 1}
	db.rt.VerifSetThis(this)
	db.primary.PartitionByID(0).SetOwners([]discovery.Member{this})
	db.backup.PartitionByID(0).SetOwners([]discovery.Member{})
	db.rt.VerifMarkBootstrapped()
	// healthy: the DMap is opened and a key stored
	db.rt.VerifSetNumMembers(3)
	dm, err := db.dmap.NewDMap("d")
	vpAssume(err == nil)
	vpAssume(dm.Put(db.ctx, "k", []byte("v0"), nil) == nil)
	before := db.dmap.VerifEntryCount("d")

	members := vpRange("members", 0, 3)
	db.rt.VerifSetNumMembers(int32(members))
	words := vpGateCmds[vpChoose("cmd", len(vpGateCmds))]
	args := make([][]byte, len(words))
	for i, w := range words {
		args[i] = []byte(w)
	}
	// the member is built but not started (no member list): with the quorum met only the DMap data commands are
	// served for real; for every other service the below-quorum refusal is what is decided here
	vpAssume(members < quorum || words[0] == "dm.put" || words[0] == "dm.get" || words[0] == "dm.del")
	conn := &vpGateConn{}
	db.server.VerifServe(conn, redcon.Command{Args: args})
	if members < quorum {
		vpAssert(conn.errs == 1 && conn.others == 0, "below-quorum-request-gets-one-error-reply")
		// what a client makes of that reply (the real client-side conversion): the cluster-quorum error
		vpAssert(errors.Is(processProtocolError(errors.New(conn.msg)), ErrClusterQuorum), "below-quorum-reply-is-the-cluster-quorum-error")
		vpAssert(db.dmap.VerifEntryCount("d") == before, "below-quorum-request-changes-nothing")
	} else {
		vpAssert(conn.errs+conn.others > 0, "request-is-answered")
	}
	vpReach("end")
}
