//go:build verif

package olric

import (
	"context"
	"math"
	"time"

	"github.com/olric-data/olric/internal/dmap"
)

// Client-level round trip and privacy: the public clients (EmbeddedDMap on the owner, EmbeddedDMap on another member,
// ClusterDMap over the wire) and the typed accessors of GetResponse, on the dmap package's loopback cluster.

type vpClientBlob struct{ b []byte }

func (x vpClientBlob) MarshalBinary() ([]byte, error) { return x.b, nil }
func (x *vpClientBlob) UnmarshalBinary(b []byte) error {
	x.b = make([]byte, len(b))
	copy(x.b, b)
	return nil
}

var vpCI64s = [6]int64{0, -1, 7, math.MinInt64, math.MaxInt64, 1 << 40}
var vpCU64s = [4]uint64{0, 9, math.MaxUint64, 1 << 63}
var vpCF64s = [6]float64{0, 1.5, -2.25, 0.1, math.MaxFloat64, math.SmallestNonzeroFloat64}

type vpClientPaths struct {
	cl  *dmap.VerifCluster
	emb [2]*EmbeddedDMap
	cd  *ClusterDMap
}

func vpNewClientPaths(replicas int) *vpClientPaths {
	const members, parts = 2, 2
	cl := dmap.VerifNewClusterR(parts, replicas, false)
	cc := vpNewClusterClient(cl, members, parts)
	cdm, err := cc.NewDMap("d")
	vpAssume(err == nil)
	p := &vpClientPaths{cl: cl, cd: cdm.(*ClusterDMap)}
	for i := 0; i < members; i++ {
		p.emb[i] = &EmbeddedDMap{config: &dmapConfig{}, dm: cl.DMap(i, "d"), name: "d"}
	}
	return p
}

// path 0: embedded client on the owner, 1: embedded client on the other member, 2: cluster client
func (p *vpClientPaths) put(path, owner int, key string, v interface{}) error {
	ctx := context.Background()
	switch path {
	case 0:
		return p.emb[owner].Put(ctx, key, v)
	case 1:
		return p.emb[1-owner].Put(ctx, key, v)
	}
	return p.cd.Put(ctx, key, v)
}

func (p *vpClientPaths) get(path, owner int, key string) (*GetResponse, error) {
	ctx := context.Background()
	switch path {
	case 0:
		return p.emb[owner].Get(ctx, key)
	case 1:
		return p.emb[1-owner].Get(ctx, key)
	}
	return p.cd.Get(ctx, key)
}

func (p *vpClientPaths) getPut(path, owner int, key string, v interface{}) (*GetResponse, error) {
	ctx := context.Background()
	switch path {
	case 0:
		return p.emb[owner].GetPut(ctx, key, v)
	case 1:
		return p.emb[1-owner].GetPut(ctx, key, v)
	}
	return p.cd.GetPut(ctx, key, v)
}

// VerifC17_ClientRoundTrip: a value of every supported type written through any client path (Put, or GetPut) and read
// back through any client path (Get, or the old value handed out by a following GetPut) with the accessor of its own
// type is equal; R in {1,2}.
func VerifC17_ClientRoundTrip() {
	replicas := 1 + vpChoose("replicas", 2)
	p := vpNewClientPaths(replicas)
	part := uint64(0)
	if vpBound("full") == 1 {
		part = uint64(vpChoose("partition", 2))
	}
	owner := int(part) % 2
	key := p.cl.KeyForPartition("d", part, 0)
	wpath := vpChoose("writer", 3)
	rpath := vpChoose("reader", 3)
	viaGetPutW := vpChoose("write-by-getput", 2) == 1
	viaGetPutR := vpChoose("read-by-getput", 2) == 1
	write := func(v interface{}) {
		if viaGetPutW {
			old, err := p.getPut(wpath, owner, key, v)
			// "no previous value" is a nil response from the cluster client and a response without entry from the
			// embedded client (the repository's tests pin both)
			vpAssert(err == nil && (old == nil || old.entry == nil), "getput-on-a-fresh-key-succeeds-without-old-value")
			return
		}
		vpAssert(p.put(wpath, owner, key, v) == nil, "put-succeeds")
	}
	read := func() *GetResponse {
		var r *GetResponse
		var err error
		if viaGetPutR {
			r, err = p.getPut(rpath, owner, key, "next")
		} else {
			r, err = p.get(rpath, owner, key)
		}
		vpAssert(err == nil && r != nil, "read-succeeds")
		if r == nil {
			vpAssume(false)
		}
		return r
	}
	switch vpChoose("type", 17) {
	case 0:
		x := int(vpCI64s[vpChoose("i", len(vpCI64s))])
		write(x)
		y, err := read().Int()
		vpAssert(err == nil && y == x, "int")
	case 1:
		x := int8(vpCI64s[vpChoose("i", 3)]) + int8(vpChoose("min", 2))*math.MinInt8
		write(x)
		y, err := read().Int8()
		vpAssert(err == nil && y == x, "int8")
	case 2:
		x := int16(vpCI64s[vpChoose("i", 3)]) - int16(vpChoose("min", 2))*math.MaxInt16
		write(x)
		y, err := read().Int16()
		vpAssert(err == nil && y == x, "int16")
	case 3:
		x := int32(vpCI64s[vpChoose("i", 3)]) + int32(vpChoose("min", 2))*math.MinInt32
		write(x)
		y, err := read().Int32()
		vpAssert(err == nil && y == x, "int32")
	case 4:
		x := vpCI64s[vpChoose("i", len(vpCI64s))]
		write(x)
		y, err := read().Int64()
		vpAssert(err == nil && y == x, "int64")
	case 5:
		x := uint(vpCU64s[vpChoose("u", len(vpCU64s))])
		write(x)
		y, err := read().Uint()
		vpAssert(err == nil && y == x, "uint")
	case 6:
		x := uint8(vpCU64s[vpChoose("u", 2)]) + uint8(vpChoose("max", 2))*(math.MaxUint8-9)
		write(x)
		y, err := read().Uint8()
		vpAssert(err == nil && y == x, "uint8")
	case 7:
		x := uint16(vpCU64s[vpChoose("u", 2)]) + uint16(vpChoose("max", 2))*(math.MaxUint16-9)
		write(x)
		y, err := read().Uint16()
		vpAssert(err == nil && y == x, "uint16")
	case 8:
		x := uint32(vpCU64s[vpChoose("u", 2)]) + uint32(vpChoose("max", 2))*(math.MaxUint32-9)
		write(x)
		y, err := read().Uint32()
		vpAssert(err == nil && y == x, "uint32")
	case 9:
		x := vpCU64s[vpChoose("u", len(vpCU64s))]
		write(x)
		y, err := read().Uint64()
		vpAssert(err == nil && y == x, "uint64")
	case 10:
		x := time.Duration(vpCI64s[vpChoose("i", len(vpCI64s))])
		write(x)
		y, err := read().Duration()
		vpAssert(err == nil && y == x, "duration")
	case 11:
		x := vpBool("x")
		write(x)
		y, err := read().Bool()
		vpAssert(err == nil && y == x, "bool")
	case 12:
		x := vpString("x", vpChoose("len", 3))
		write(x)
		y, err := read().String()
		vpAssert(err == nil && y == x, "string")
	case 13:
		x := vpBytes("x", vpChoose("len", 3))
		write(x)
		y, err := read().Byte()
		vpAssert(err == nil && vpBytesEq(y, x), "bytes")
	case 14:
		x := vpClientBlob{b: vpBytes("x", 1+vpChoose("len", 2))}
		write(x)
		var y vpClientBlob
		err := read().Scan(&y)
		vpAssert(err == nil && vpBytesEq(y.b, x.b), "binary-marshaler")
	case 15:
		x := vpCF64s[vpChoose("f", len(vpCF64s))]
		write(x)
		y, err := read().Float64()
		vpAssert(err == nil && math.Float64bits(y) == math.Float64bits(x), "float64")
	case 16:
		x := float32(vpCF64s[vpChoose("f", 4)])
		write(x)
		y, err := read().Float32()
		vpAssert(err == nil && math.Float32bits(y) == math.Float32bits(x), "float32")
	}
	vpReach("end")
}

// VerifC18_ClientSnapshot: at the level of the public clients. The buffer passed to Put/GetPut may be reused as soon
// as the call returns; bytes handed out by GetResponse.Byte (from Get and from GetPut's old value) are private: changing
// them does not change what a second read returns, and a later overwrite / delete / second GetPut does not change them.
func VerifC18_ClientSnapshot() {
	replicas := 1 + vpChoose("replicas", 2)
	p := vpNewClientPaths(replicas)
	part := uint64(vpChoose("partition", 2))
	owner := int(part) % 2
	key := p.cl.KeyForPartition("d", part, 0)
	n := 1 + vpChoose("len", 2)
	orig := vpBytes("v", n)
	buf := make([]byte, n)
	copy(buf, orig)
	ctx := context.Background()
	full := vpBound("full") == 1
	wpath := vpChoose("writer", 4)
	wGetPut := vpChoose("write-by-getput", 2) == 1
	if wpath == 3 {
		// a pipeline of the cluster client: the buffer is the caller's again as soon as Put/GetPut has queued the
		// command, i.e. before Exec
		pipe, perr := p.cd.Pipeline()
		vpAssume(perr == nil)
		if wGetPut {
			_, err := pipe.GetPut(ctx, key, buf)
			vpAssume(err == nil)
		} else {
			_, err := pipe.Put(ctx, key, buf)
			vpAssume(err == nil)
		}
		for i := range buf {
			buf[i] ^= 0xff
		}
		vpAssume(pipe.Exec(ctx) == nil)
	} else if wGetPut {
		_, err := p.getPut(wpath, owner, key, buf)
		vpAssume(err == nil)
	} else {
		vpAssume(p.put(wpath, owner, key, buf) == nil)
	}
	for i := range buf { // the caller reuses its buffer
		buf[i] ^= 0x0f
	}
	rpath := vpChoose("reader", 4)
	var got []byte
	next := []byte{0x11, 0x22}
	byGetPut := vpChoose("read-by-getput", 2) == 1
	if rpath == 3 {
		pipe, perr := p.cd.Pipeline()
		vpAssume(perr == nil)
		var r *GetResponse
		var err error
		if byGetPut {
			f, qerr := pipe.GetPut(ctx, key, next)
			vpAssume(qerr == nil)
			vpAssume(pipe.Exec(ctx) == nil)
			r, err = f.Result()
		} else {
			f := pipe.Get(ctx, key)
			vpAssume(pipe.Exec(ctx) == nil)
			r, err = f.Result()
		}
		vpAssume(err == nil && r != nil)
		got, err = r.Byte()
		vpAssume(err == nil)
	} else if byGetPut {
		r, err := p.getPut(rpath, owner, key, next)
		vpAssume(err == nil && r != nil)
		got, err = r.Byte()
		vpAssume(err == nil)
	} else {
		r, err := p.get(rpath, owner, key)
		vpAssume(err == nil && r != nil)
		got, err = r.Byte()
		vpAssume(err == nil)
	}
	vpAssert(vpBytesEq(got, orig), "stored-value-unaffected-by-reuse-of-the-put-buffer")
	// the caller scribbles over what it was handed
	for i := range got {
		got[i] ^= 0x5a
	}
	mine := make([]byte, len(got))
	copy(mine, got)
	r2path := (rpath + 1) % 3
	if full {
		r2path = vpChoose("reader2", 3)
	}
	r2, err := p.get(r2path, owner, key)
	vpAssume(err == nil && r2 != nil)
	b2, err := r2.Byte()
	vpAssume(err == nil)
	if byGetPut {
		vpAssert(vpBytesEq(b2, next), "value-after-getput-is-the-new-value")
	} else {
		vpAssert(vpBytesEq(b2, orig), "modifying-returned-bytes-does-not-alter-the-stored-value")
	}
	// later traffic on the key
	lpath := (wpath + 1) % 3
	if full {
		lpath = vpChoose("later-path", 3)
	}
	switch vpChoose("later", 3) {
	case 0:
		vpAssume(p.put(lpath, owner, key, []byte{0x77, 0x78, 0x79}) == nil)
	case 1:
		_, derr := p.emb[owner].Delete(ctx, key)
		vpAssume(derr == nil)
		vpAssume(p.put(lpath, owner, p.cl.KeyForPartition("d", part, 1), []byte{0x55, 0x56}) == nil)
	case 2:
		_, gerr := p.getPut(lpath, owner, key, []byte{0x33})
		vpAssume(gerr == nil)
	}
	vpAssert(vpBytesEq(got, mine), "returned-bytes-do-not-change-afterwards")
	if byGetPut {
		vpAssert(vpBytesEq(b2, next), "second-read-does-not-change-afterwards")
	} else {
		vpAssert(vpBytesEq(b2, orig), "second-read-does-not-change-afterwards")
	}
	vpReach("end")
}
