//go:build verif

package kvstore

import (
	"errors"
	"io"

	"github.com/olric-data/olric/internal/kvstore/entry"
	"github.com/olric-data/olric/pkg/storage"
)

var vpKeyLens = [7]int{0, 1, 2, 254, 255, 256, 257}

// VerifC17_EntryRoundTrip: an entry with arbitrary key bytes (length around the maximum), arbitrary value bytes,
// ttl and timestamp is read back identical through Put/Get, Put/GetRaw/Decode and Encode/PutRaw/Get; keys
// that are too long are rejected on every storing path; a neighbouring entry is never disturbed.
func VerifC17_EntryRoundTrip() {
	big := vpBound("biglen")
	klen := vpKeyLens[vpChoose("klen", len(vpKeyLens))]
	vlen := vpPickLen("vlen", big)
	size := vpU64("tableSize")
	vpAssume(size >= 31 && size <= 2048)
	s := vpMkStore(size)

	// neighbour stored first
	nb := entry.New()
	nb.SetKey("n")
	nb.SetValue(vpBytes("nval", 2))
	nb.SetTTL(vpI64("nttl"))
	nb.SetTimestamp(vpI64("nts"))
	nbErr := s.Put(77, nb)
	if vpChoose("garbage", 2) == 1 {
		// the neighbour is overwritten once, so the table holds a dead version before the entry under test
		nb.SetValue(vpBytes("nval2", 1))
		nbErr = s.Put(77, nb)
	}

	e := entry.New()
	e.SetKey(vpString("key", klen))
	e.SetValue(vpBytes("val", vlen))
	e.SetTTL(vpI64("ttl"))
	e.SetTimestamp(vpI64("ts"))
	e.SetLastAccess(vpI64("la"))
	want := vpCopyBytes(e.Value())

	raw := vpBool("raw") // replica path: Encode + PutRaw
	var err error
	if raw {
		// PutRaw takes bytes produced by Entry.Encode; a key longer than 255 bytes has no well-formed
		// encoding (one length byte), so that case is decided where the entry is built (dmap harness).
		vpAssume(klen < 256)
		err = s.PutRaw(55, e.Encode())
	} else {
		err = s.Put(55, e)
	}
	if klen >= 256 {
		// either documented error is fine when the entry is both too long-keyed and too large for a table
		tooLargeToo := errors.Is(err, storage.ErrEntryTooLarge) && uint64(klen+vlen+29) >= size
		vpAssert(errors.Is(err, storage.ErrKeyTooLarge) || tooLargeToo, "key-too-large-rejected")
	} else if uint64(klen+vlen+29) >= size {
		vpAssert(errors.Is(err, storage.ErrEntryTooLarge), "entry-too-large-rejected")
	} else {
		vpAssert(err == nil, "fits-is-stored")
	}
	if err == nil {
		g, gerr := s.Get(55)
		vpAssert(gerr == nil, "roundtrip-get")
		if gerr == nil {
			vpAssert(g.Key() == e.Key(), "roundtrip-key")
			vpAssert(vpBytesEq(g.Value(), want), "roundtrip-value")
			vpAssert(vpAnd(g.TTL() == e.TTL(), g.Timestamp() == e.Timestamp()), "roundtrip-meta")
		}
		r, rerr := s.GetRaw(55)
		vpAssert(rerr == nil, "roundtrip-getraw")
		if rerr == nil {
			d := entry.New()
			d.Decode(r)
			vpAssert(vpAnd(d.Key() == e.Key(), vpBytesEq(d.Value(), want)), "roundtrip-raw-key-value")
			vpAssert(vpAnd(d.TTL() == e.TTL(), d.Timestamp() == e.Timestamp()), "roundtrip-raw-meta")
		}
		k, kerr := s.GetKey(55)
		vpAssert(vpAnd(kerr == nil, k == e.Key()), "roundtrip-getkey")
	} else {
		_, gerr := s.Get(55)
		vpAssert(errors.Is(gerr, storage.ErrKeyNotFound), "rejected-entry-not-stored")
	}
	// migration to another member: every table is exported and imported into a fresh store
	if vpChoose("migrate", 2) == 1 {
		dst := vpMkStore(size)
		it := s.TransferIterator()
		for rounds := 0; it.Next(); rounds++ {
			vpAssert(rounds < 4, "migration-terminates")
			if rounds >= 4 {
				break
			}
			data, idx, xerr := it.Export()
			if xerr == io.EOF {
				break
			}
			vpAssert(xerr == nil, "migration-export")
			ierr := dst.Import(data, func(hkey uint64, me storage.Entry) error { return dst.Put(hkey, me) })
			vpAssert(ierr == nil, "migration-import")
			vpAssert(it.Drop(idx) == nil, "migration-drop")
		}
		s = dst
		if err == nil {
			g, gerr := s.Get(55)
			vpAssert(gerr == nil, "migrated-get")
			if gerr == nil {
				vpAssert(vpAnd(g.Key() == e.Key(), vpBytesEq(g.Value(), want)), "migrated-key-value")
				vpAssert(vpAnd(g.TTL() == e.TTL(), g.Timestamp() == e.Timestamp()), "migrated-meta")
			}
		}
	}
	// neighbour untouched
	if nbErr == nil {
		g, gerr := s.Get(77)
		vpAssert(gerr == nil, "neighbour-present")
		if gerr == nil {
			vpAssert(vpAnd(g.Key() == "n", vpBytesEq(g.Value(), nb.Value())), "neighbour-unchanged")
			vpAssert(vpAnd(g.TTL() == nb.TTL(), g.Timestamp() == nb.Timestamp()), "neighbour-meta-unchanged")
		}
	}
	vpReach("end")
}
