//go:build verif

package kvstore

import (
	"github.com/olric-data/olric/pkg/storage"
)

// VerifC18_Snapshot: bytes and key strings handed out by Get / GetKey / Scan / ScanRegexMatch / Range never alias the store: mutating them does not
// change what is stored, and later writes, deletes, compaction and table recycling do not change them;
// buffers passed to Put may be reused.
func VerifC18_Snapshot() {
	pre := vpBound("pre")
	steps := vpBound("steps")
	big := vpBound("biglen")
	size := vpU64("tableSize")
	vpAssume(size >= 31 && size <= uint64(4*(30+big)))
	vpIdleNow = vpChoose("idle", 2) == 1
	s := vpMkStore(size)
	ref := make([]vpRef, 2)

	vlen := 1 + vpChoose("vlen0", 2)*(big-1)
	e := vpMkEntry(0, vlen)
	buf := e.Value()
	err := s.Put(vpHKey(0), e)
	vpAssume(err == nil)
	ref[0] = vpRef{present: true, val: vpCopyBytes(buf), ttl: e.TTL(), ts: e.Timestamp()}

	// (iii) the caller reuses its buffer after Put returned
	buf[0] ^= 0xff
	vpCheckStore(s, ref)

	// history before the read: the key may end up in a sealed (read-only) table, be moved by compaction, ...
	for i := 0; i < pre; i++ {
		s = vpStep(s, ref, 2, big, size, 2*(pre+steps)+4, 4)
	}
	vpAssume(ref[0].present && len(ref[0].val) > 0)

	got, gotKey := vpReadKey0(s)
	vpAssert(gotKey == vpKeyNames[0], "read-returns-stored-key")
	vpAssert(vpBytesEq(got, ref[0].val), "read-returns-stored-value")
	snap := vpCopyBytes(got)

	if vpBool("mutate") {
		// (i) mutating the returned bytes must not alter the stored value
		got[0] ^= 0x5a
		vpCheckStore(s, ref)
	} else {
		// (ii) later operations must not alter the returned bytes
		for i := 0; i < steps; i++ {
			s = vpStep(s, ref, 2, big, size, 2*(pre+steps)+4, 4)
		}
		vpAssert(vpBytesEq(got, snap), "returned-bytes-stable")
		vpAssert(gotKey == vpKeyNames[0], "returned-key-stable")
	}
	vpReach("end")
}

// vpReadKey0 obtains key 0's value and key string through one of the read paths (Get, Scan, Range, GetKey + regular
// expression scan).
func vpReadKey0(s *KVStore) ([]byte, string) {
	var got []byte
	var gotKey string
	switch vpChoose("read", 4) {
	case 0:
		g, gerr := s.Get(vpHKey(0))
		vpAssume(gerr == nil)
		got = g.Value()
		gotKey = g.Key()
	case 1:
		cursor := uint64(0)
		for i := 0; i < 8; i++ {
			next, serr := s.Scan(cursor, 10, func(x storage.Entry) bool {
				if x.Key() == vpKeyNames[0] {
					got = x.Value()
					gotKey = x.Key()
				}
				return true
			})
			vpAssume(serr == nil)
			if next == 0 {
				break
			}
			cursor = next
		}
	case 2:
		s.Range(func(hk uint64, x storage.Entry) bool {
			if hk == vpHKey(0) {
				got = x.Value()
				gotKey = x.Key()
			}
			return true
		})
	case 3:
		// the key alone (what iterators hand out), and the value through the regular expression scan
		k, kerr := s.GetKey(vpHKey(0))
		vpAssume(kerr == nil)
		gotKey = k
		cursor := uint64(0)
		for i := 0; i < 8; i++ {
			next, serr := s.ScanRegexMatch(cursor, "^"+vpKeyNames[0]+"$", 10, func(x storage.Entry) bool {
				got = x.Value()
				vpAssert(x.Key() == k, "match-scan-key")
				gotKey = x.Key()
				return true
			})
			vpAssume(serr == nil)
			if next == 0 {
				break
			}
			cursor = next
		}
	}
	return got, gotKey
}

// VerifC18_Recycle: what a read handed out (value bytes and key string) stays intact while the table it came from
// is emptied by an overwrite, recycled by compaction and reused for other entries: one free step, then a fixed churn
// (overwrite, compaction to completion, writes of the other key that take the recycled table back into use, with
// solver-chosen contents and table size).
func VerifC18_Recycle() {
	big := vpBound("biglen")
	size := vpU64("tableSize")
	vpAssume(size >= 31 && size <= uint64(4*(30+big)))
	vpIdleNow = false
	s := vpMkStore(size)
	ref := make([]vpRef, 2)
	e := vpMkEntry(0, 1+vpChoose("vlen0", 2)*(big-1))
	vpAssume(s.Put(vpHKey(0), e) == nil)
	ref[0] = vpRef{present: true, val: vpCopyBytes(e.Value()), ttl: e.TTL(), ts: e.Timestamp()}
	if vpChoose("pre", 2) == 1 {
		s = vpStep(s, ref, 2, big, size, 12, 4)
		vpAssume(ref[0].present && len(ref[0].val) > 0)
	}
	got, gotKey := vpReadKey0(s)
	vpAssert(gotKey == vpKeyNames[0], "read-returns-stored-key")
	vpAssert(vpBytesEq(got, ref[0].val), "read-returns-stored-value")
	snap := vpCopyBytes(got)
	churn := func(k, vlen int) {
		x := vpMkEntry(k, vlen)
		if s.Put(vpHKey(k), x) == nil {
			ref[k] = vpRef{present: true, val: vpCopyBytes(x.Value()), ttl: x.TTL(), ts: x.Timestamp()}
		}
	}
	churn(0, big)
	churn(0, 1)
	vpCompact(s, 12)
	churn(1, big)
	churn(1, big)
	churn(1, 1)
	churn(0, big)
	vpAssert(vpBytesEq(got, snap), "returned-bytes-stable")
	vpAssert(gotKey == vpKeyNames[0], "returned-key-stable")
	vpCheckStore(s, ref)
	vpReach("end")
}
