//go:build verif

package kvstore

import (
	"github.com/olric-data/olric/pkg/storage"
)

// VerifC18_Snapshot: bytes handed out by Get / Scan / Range never alias the store: mutating them does not
// change what is stored, and later writes, deletes, compaction and table recycling do not change them;
// buffers passed to Put may be reused.
func VerifC18_Snapshot() {
	pre := vpBound("pre")
	steps := vpBound("steps")
	big := vpBound("biglen")
	size := vpU64("tableSize")
	vpAssume(size >= 31 && size <= uint64(4*(30+big)))
	vpIdleNow = vpChoose("idle", 2) == 1
	s := vpMkStore(size)
	ref := make([]vpRef, 2)

	vlen := 1 + vpChoose("vlen0", 2)*(big-1)
	e := vpMkEntry(0, vlen)
	buf := e.Value()
	err := s.Put(vpHKey(0), e)
	vpAssume(err == nil)
	ref[0] = vpRef{present: true, val: vpCopyBytes(buf), ttl: e.TTL(), ts: e.Timestamp()}

	// (iii) the caller reuses its buffer after Put returned
	buf[0] ^= 0xff
	vpCheckStore(s, ref)

	// history before the read: the key may end up in a sealed (read-only) table, be moved by compaction, ...
	for i := 0; i < pre; i++ {
		s = vpStep(s, ref, 2, big, size, 2*(pre+steps)+4, 4)
	}
	vpAssume(ref[0].present && len(ref[0].val) > 0)

	// obtain the value through one of the read paths
	var got []byte
	switch vpChoose("read", 3) {
	case 0:
		g, gerr := s.Get(vpHKey(0))
		vpAssume(gerr == nil)
		got = g.Value()
	case 1:
		cursor := uint64(0)
		for i := 0; i < 8; i++ {
			next, serr := s.Scan(cursor, 10, func(x storage.Entry) bool {
				if x.Key() == vpKeyNames[0] {
					got = x.Value()
				}
				return true
			})
			vpAssume(serr == nil)
			if next == 0 {
				break
			}
			cursor = next
		}
	case 2:
		s.Range(func(hk uint64, x storage.Entry) bool {
			if hk == vpHKey(0) {
				got = x.Value()
			}
			return true
		})
	}
	vpAssert(vpBytesEq(got, ref[0].val), "read-returns-stored-value")
	snap := vpCopyBytes(got)

	if vpBool("mutate") {
		// (i) mutating the returned bytes must not alter the stored value
		got[0] ^= 0x5a
		vpCheckStore(s, ref)
	} else {
		// (ii) later operations must not alter the returned bytes
		for i := 0; i < steps; i++ {
			s = vpStep(s, ref, 2, big, size, 2*(pre+steps)+4, 4)
		}
		vpAssert(vpBytesEq(got, snap), "returned-bytes-stable")
	}
	vpReach("end")
}
