//go:build verif

package kvstore

import (
	"github.com/olric-data/olric/pkg/storage"
)

// VerifC18_Snapshot: bytes handed out by Get / Scan / Range never alias the store: mutating them does not
// change what is stored, and later writes, deletes, compaction and table recycling do not change them;
// buffers passed to Put may be reused.
func VerifC18_Snapshot() {
	steps := vpBound("steps")
	big := vpBound("biglen")
	size := vpU64("tableSize")
	vpAssume(size >= 31 && size <= uint64(4*(30+big)))
	s := vpMkStore(size)
	ref := make([]vpRef, 2)

	vlen := 1 + vpChoose("vlen0", 2)*(big-1)
	e := vpMkEntry(0, vlen)
	buf := e.Value()
	err := s.Put(vpHKey(0), e)
	vpAssume(err == nil)
	ref[0] = vpRef{present: true, val: vpCopyBytes(buf), ttl: e.TTL(), ts: e.Timestamp()}

	// (iii) the caller reuses its buffer after Put returned
	buf[0] ^= 0xff
	vpCheckStore(s, ref)

	// obtain a value through one of the read paths
	var got []byte
	switch vpChoose("read", 3) {
	case 0:
		g, gerr := s.Get(vpHKey(0))
		vpAssume(gerr == nil)
		got = g.Value()
	case 1:
		_, serr := s.Scan(0, 10, func(x storage.Entry) bool { got = x.Value(); return true })
		vpAssume(serr == nil)
	case 2:
		s.Range(func(hk uint64, x storage.Entry) bool { got = x.Value(); return true })
	}
	vpAssert(vpBytesEq(got, ref[0].val), "read-returns-stored-value")
	snap := vpCopyBytes(got)

	if vpBool("mutate") {
		// (i) mutating the returned bytes must not alter the stored value
		got[0] ^= 0x5a
		vpCheckStore(s, ref)
	} else {
		// (ii) later operations must not alter the returned bytes
		for i := 0; i < steps; i++ {
			s = vpStep(s, ref, 2, big, size, 2*steps+4, 4)
		}
		vpAssert(vpBytesEq(got, snap), "returned-bytes-stable")
	}
	vpReach("end")
}
