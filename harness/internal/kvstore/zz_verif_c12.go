//go:build verif

package kvstore

import (
	"regexp"

	"github.com/olric-data/olric/internal/kvstore/entry"

	"github.com/olric-data/olric/pkg/storage"
)

// vpFullScan iterates Scan (or ScanRegexMatch when expr != "") from cursor 0 until the cursor returns to 0
// and counts how often each key was yielded.
func vpFullScan(s *KVStore, nkeys int, count int, expr string, limit int) ([]int, int) {
	seen := make([]int, nkeys)
	foreign := 0
	cursor := uint64(0)
	for iter := 0; ; iter++ {
		vpAssert(iter < limit, "scan-terminates")
		if iter >= limit {
			break
		}
		f := func(e storage.Entry) bool {
			hit := false
			for k := 0; k < nkeys; k++ {
				if e.Key() == vpKeyNames[k] {
					seen[k]++
					hit = true
				}
			}
			if !hit {
				foreign++
			}
			return true
		}
		var next uint64
		var err error
		if expr == "" {
			next, err = s.Scan(cursor, count, f)
		} else {
			next, err = s.ScanRegexMatch(cursor, expr, count, f)
		}
		vpAssert(err == nil, "scan-error")
		if next == 0 {
			break
		}
		cursor = next
	}
	return seen, foreign
}

// Table sizes for the scan harnesses: 32 holds one entry per table, 64 two small ones, 100 three.
var vpSizes = [3]uint64{32, 64, 100}

func vpPutFixed(s *KVStore, ref []vpRef, k int, raw bool) {
	e := entry.New()
	e.SetKey(vpKeyNames[k])
	e.SetValue([]byte{byte(k)})
	e.SetTTL(0)
	e.SetTimestamp(int64(7 + k))
	var err error
	if raw {
		err = s.PutRaw(vpHKey(k), e.Encode())
	} else {
		err = s.Put(vpHKey(k), e)
	}
	if err == nil {
		ref[k] = vpRef{present: true, val: []byte{byte(k)}, ttl: 0, ts: int64(7 + k)}
	}
}

// vpPrepare drives the store through one of a few concrete preambles (real code, fixed operations) that
// leave characteristic table layouts behind: holes in the coefficient numbering, recycled tables that
// are reused under a higher coefficient, recycled tables dropped after the idle timeout.
func vpPrepare(s *KVStore, ref []vpRef, layout int) {
	switch layout {
	case 1: // a | b | b' : the middle table becomes pure garbage, is recycled (and dropped when idle)
		vpPutFixed(s, ref, 0, false)
		vpPutFixed(s, ref, 1, false)
		vpPutFixed(s, ref, 1, false)
		vpCompact(s, 8)
	case 2: // a | b, delete a, compact, put a again: recycled table reused under a new coefficient
		vpPutFixed(s, ref, 0, false)
		vpPutFixed(s, ref, 1, false)
		_ = s.Delete(vpHKey(0))
		ref[0] = vpRef{}
		vpCompact(s, 8)
		vpPutFixed(s, ref, 0, true)
	case 3: // overwrite churn of one key followed by the other key
		vpPutFixed(s, ref, 0, false)
		vpPutFixed(s, ref, 0, true)
		vpPutFixed(s, ref, 0, false)
		vpCompact(s, 8)
		vpPutFixed(s, ref, 1, false)
	}
}

// VerifC12_Scan: after a preamble and any script (which shape the tables: several tables, recycled tables,
// holes in the coefficient numbering), a full scan with any COUNT in [1,3] terminates, yields every present
// key and no absent key.
func VerifC12_Scan() {
	nkeys := vpBound("keys")
	steps := vpBound("steps")
	big := vpBound("biglen")
	size := vpSizes[vpChoose("size", len(vpSizes))]
	vpIdleNow = vpChoose("idle", 2) == 1
	s := vpMkStore(size)
	ref := make([]vpRef, nkeys)
	vpPrepare(s, ref, vpChoose("layout", 4))
	for i := 0; i < steps; i++ {
		s = vpStep(s, ref, nkeys, big, size, 2*steps+8, 4)
	}
	count := vpRange("count", 1, 3)
	seen, foreign := vpFullScan(s, nkeys, count, "", 4*steps+12)
	for k := 0; k < nkeys; k++ {
		if ref[k].present {
			vpAssert(seen[k] >= 1, "scan-yields-present-key")
			vpAssert(seen[k] == 1, "scan-yields-present-key-once")
		} else {
			vpAssert(seen[k] == 0, "scan-never-yields-absent-key")
		}
	}
	vpAssert(foreign == 0, "scan-foreign-key")
	vpReach("end")
}

// VerifC12_ScanSym: the same with a symbolic table size (the solver decides the cursor arithmetic
// cursor/tableSize and cf*tableSize+offset for every size in range), shorter scripts.
func VerifC12_ScanSym() {
	nkeys := vpBound("keys")
	steps := vpBound("steps")
	big := vpBound("biglen")
	size := vpU64("tableSize")
	vpAssume(size >= 31 && size <= uint64(4*(30+big)))
	s := vpMkStore(size)
	ref := make([]vpRef, nkeys)
	for i := 0; i < steps; i++ {
		s = vpStep(s, ref, nkeys, big, size, 2*steps+4, 4)
	}
	count := vpRange("count", 1, 2)
	seen, foreign := vpFullScan(s, nkeys, count, "", 4*steps+6)
	for k := 0; k < nkeys; k++ {
		if ref[k].present {
			vpAssert(seen[k] >= 1, "scan-yields-present-key")
		} else {
			vpAssert(seen[k] == 0, "scan-never-yields-absent-key")
		}
	}
	vpAssert(foreign == 0, "scan-foreign-key")
	vpReach("end")
}

var vpExprs = [5]string{"^a$", "^b$", "[ab]", "^c", "^.$"}

// VerifC12_ScanMatch: with MATCH exactly the present keys matching the pattern are yielded (the
// regexp engine itself is the standard library's; patterns are drawn from a small concrete set).
func VerifC12_ScanMatch() {
	nkeys := vpBound("keys")
	steps := vpBound("steps")
	big := vpBound("biglen")
	size := vpSizes[vpChoose("size", len(vpSizes))]
	s := vpMkStore(size)
	ref := make([]vpRef, nkeys)
	vpPrepare(s, ref, vpChoose("layout", 4))
	for i := 0; i < steps; i++ {
		s = vpStep(s, ref, nkeys, big, size, 2*steps+8, 4)
	}
	expr := vpExprs[vpChoose("expr", len(vpExprs))]
	count := vpRange("count", 1, 2)
	seen, foreign := vpFullScan(s, nkeys, count, expr, 4*steps+12)
	re := regexp.MustCompile(expr)
	for k := 0; k < nkeys; k++ {
		if ref[k].present && re.MatchString(vpKeyNames[k]) {
			vpAssert(seen[k] >= 1, "match-yields-present-matching-key")
		} else {
			vpAssert(seen[k] == 0, "match-never-yields-other-key")
		}
	}
	vpAssert(foreign == 0, "match-foreign-key")
	vpReach("end")
}

var vpPausedKeys = [5]string{"p0", "p1", "p2", "p3", "p4"}

// VerifC12_PausedScan: an iteration that is interrupted. Five keys are stored (table size 32, 64 or 100: one to three
// entries per table), the first page is read with COUNT 1 or 2, then - while the client holds its cursor -
// solver-chosen keys are deleted or overwritten and compaction runs to completion (tables the cursor points into may
// be emptied, recycled, reused), then the iteration resumes with COUNT 1 or 3 and runs to the end. Every key that was
// present and untouched for the whole iteration is yielded at least once, keys deleted before the iteration began
// never, and the iteration terminates.
func VerifC12_PausedScan() {
	full := vpBound("full") != 0
	size := vpSizes[1+vpChoose("size", 2)] // two or three entries per table
	vpIdleNow = false
	if full {
		vpIdleNow = vpChoose("idle", 2) == 1
	}
	s := vpMkStore(size)
	const n = len(vpPausedKeys)
	put := func(k int, v byte) {
		e := entry.New()
		e.SetKey(vpPausedKeys[k])
		e.SetValue([]byte{v})
		e.SetTimestamp(int64(7 + k))
		vpAssume(s.Put(vpHKey(k), e) == nil)
	}
	for k := 0; k < n; k++ {
		put(k, 1)
	}
	stable := [n]bool{true, true, true, true, true}
	absent := -1
	if full && vpChoose("predeleted", 2) == 1 {
		absent = vpChoose("which", n)
		vpAssume(s.Delete(vpHKey(absent)) == nil)
		stable[absent] = false
	}
	seen := [n]int{}
	foreign := 0
	f := func(e storage.Entry) bool {
		hit := false
		for k := 0; k < n; k++ {
			if e.Key() == vpPausedKeys[k] {
				seen[k]++
				hit = true
			}
		}
		if !hit {
			foreign++
		}
		return true
	}
	cursor, err := s.Scan(0, 1+vpChoose("count1", 2), f)
	vpAssert(err == nil, "scan-error")
	if cursor != 0 {
		// the pause: two mutations of solver-chosen kind on solver-chosen keys, then compaction to completion
		for i := 0; i < 2; i++ {
			k := vpChoose("key", n)
			switch vpChoose("mut", 2) {
			case 0:
				vpAssume(s.Delete(vpHKey(k)) == nil)
				stable[k] = false
			case 1:
				if k != absent {
					put(k, 2)
					stable[k] = false
				}
			}
		}
		vpCompact(s, 16)
		count2 := 1 + 2*vpChoose("count2", 2)
		for iter := 0; cursor != 0; iter++ {
			vpAssert(iter < 24, "scan-terminates")
			if iter >= 24 {
				break
			}
			cursor, err = s.Scan(cursor, count2, f)
			vpAssert(err == nil, "scan-error")
		}
	}
	for k := 0; k < n; k++ {
		if stable[k] {
			vpAssert(seen[k] >= 1, "key-present-for-the-whole-iteration-is-yielded")
		}
	}
	if absent >= 0 && !vpReput(absent, stable[:]) {
		vpAssert(seen[absent] == 0, "key-deleted-before-the-iteration-is-never-yielded")
	}
	vpAssert(foreign == 0, "scan-foreign-key")
	vpReach("end")
}

// vpReput: the pre-deleted key is never stored again in this harness (overwrites skip it).
func vpReput(absent int, stable []bool) bool { return false }
