//go:build verif

package kvstore

import (
	"github.com/olric-data/olric/internal/kvstore/table"
)

// vpCheckAccounting asserts the per-table accounting invariant and that a key is indexed by one table only.
func vpCheckAccounting(s *KVStore, nkeys int) {
	for _, t := range s.tables {
		a := table.VerifAccounting(t)
		if a.State == table.RecycledState {
			vpAssert(vpAnd(a.Inuse == 0, a.Length == 0), "recycled-table-empty")
			continue
		}
		vpAssert(a.Inuse+a.Garbage == a.Offset, "inuse-plus-garbage-is-offset")
		vpAssert(a.IndexedBytes == a.Inuse, "inuse-is-sum-of-indexed-entries")
		vpAssert(a.Offset < a.Allocated || a.Offset == 0, "offset-within-allocation")
		vpAssert(vpAnd(a.OffsetsIndexed == a.Length, a.OffsetIndexCard == uint64(a.Length)), "offset-index-matches-hkeys")
	}
	for k := 0; k < nkeys; k++ {
		n := 0
		for _, t := range s.tables {
			if t.Check(vpHKey(k)) {
				n++
			}
		}
		vpAssert(n <= 1, "key-indexed-by-one-table")
	}
	vpAssert(len(s.tablesByCoefficient) <= len(s.tables), "coefficient-index-bounded")
}

// vpGarbageHeavy counts tables at or above the compaction threshold.
func vpGarbageHeavy(s *KVStore) int {
	n := 0
	for _, t := range s.tables {
		if s.isCompactionOK(t) && t.Stats().Allocated != 0 {
			n++
		}
	}
	return n
}

// VerifC20_Accounting: superseded versions are accounted as garbage on every path (Put, PutRaw, Delete,
// compaction) and the bookkeeping of every table stays consistent after every step.
func VerifC20_Accounting() {
	nkeys := vpBound("keys")
	steps := vpBound("steps")
	big := vpBound("biglen")
	size := vpU64("tableSize")
	vpAssume(size >= 31 && size <= uint64(4*(30+big)))
	vpIdleNow = vpChoose("idle", 2) == 1
	s := vpMkStore(size)
	ref := make([]vpRef, nkeys)
	for i := 0; i < steps; i++ {
		s = vpStep(s, ref, nkeys, big, size, 2*steps+4, 4)
		vpCheckAccounting(s, nkeys)
	}
	// compaction to completion leaves no table at or above the threshold and keeps the accounting
	vpCompact(s, 2*steps+4)
	vpAssert(vpGarbageHeavy(s) == 0, "no-garbage-heavy-table-after-compaction")
	vpCheckAccounting(s, nkeys)
	vpCheckStore(s, ref)
	vpReach("end")
}

// VerifC20_Churn: overwriting and deleting one key C times, with compaction run to completion after each
// round, keeps the number of tables and the allocated memory bounded by a constant.
func VerifC20_Churn() {
	rounds := vpBound("rounds")
	big := vpBound("biglen")
	size := vpU64("tableSize")
	vpAssume(size >= 31 && size <= uint64(4*(30+big)))
	vpIdleNow = vpChoose("idle", 2) == 1
	s := vpMkStore(size)
	ref := make([]vpRef, 1)
	for i := 0; i < rounds; i++ {
		kind := vpChoose("churn", 3)
		vlen := vpPickLen("vlen", big)
		e := vpMkEntry(0, vlen)
		var err error
		switch kind {
		case 0:
			err = s.Put(vpHKey(0), e)
		case 1:
			err = s.PutRaw(vpHKey(0), e.Encode())
		case 2:
			err = s.Delete(vpHKey(0))
		}
		if kind == 2 {
			ref[0] = vpRef{}
		} else if err == nil {
			ref[0] = vpRef{present: true, val: vpCopyBytes(e.Value()), ttl: e.TTL(), ts: e.Timestamp()}
		}
		vpCompact(s, 8)
		st := s.Stats()
		vpAssert(st.NumTables <= 3, "table-count-bounded")
		vpAssert(uint64(st.Allocated) <= 3*size, "allocated-bounded")
		vpAssert(uint64(st.Inuse) <= uint64(30+big), "inuse-is-live-data")
	}
	vpCheckStore(s, ref)
	vpReach("end")
}

// VerifC20_MixedSizes: churn over a fixed set of two keys whose entries have very different sizes (a small one and
// one that takes most of a table), so that tables are sealed while mostly empty: any sequence of overwrites of either
// key, compaction run to completion after every write. The number of tables stays within a constant - a sealed
// table whose entries have all been superseded must be reclaimed even though its garbage is a small fraction of its
// allocation.
func VerifC20_MixedSizes() {
	rounds := vpBound("rounds")
	const size = 100
	vpIdleNow = vpChoose("idle", 2) == 1
	s := vpMkStore(size)
	ref := make([]vpRef, 2)
	vlens := [2]int{1, 40} // entries of 31 and 70 bytes: they do not share a table
	for i := 0; i < rounds; i++ {
		k := vpChoose("key", 2)
		e := vpMkEntry(k, vlens[k])
		var err error
		if vpChoose("raw", 2) == 1 {
			err = s.PutRaw(vpHKey(k), e.Encode())
		} else {
			err = s.Put(vpHKey(k), e)
		}
		vpAssert(err == nil, "churn-put-succeeds")
		if err == nil {
			ref[k] = vpRef{present: true, val: vpCopyBytes(e.Value()), ttl: e.TTL(), ts: e.Timestamp()}
		}
		vpCompact(s, 12)
		st := s.Stats()
		vpAssert(st.NumTables <= 4, "table-count-bounded")
		vpAssert(st.Inuse <= 31+70, "inuse-is-live-data")
	}
	vpCheckStore(s, ref)
	vpReach("end")
}
