//go:build verif

package table

// VerifAcct exposes the accounting state of a table to the kvstore harnesses.
type VerifAcct struct {
	Offset, Allocated, Inuse, Garbage uint64
	Length                            int
	IndexedBytes                      uint64 // sum of the sizes of the entries the hkey index points to
	OffsetsIndexed                    int    // number of hkey offsets present in the offset index
	OffsetIndexCard                   uint64 // cardinality of the offset index
	State                             State
}

func VerifAccounting(t *Table) VerifAcct {
	a := VerifAcct{Offset: t.offset, Allocated: t.allocated, Inuse: t.inuse, Garbage: t.garbage, Length: len(t.hkeys), State: t.state}
	for _, off := range t.hkeys {
		klen := uint64(t.memory[off])
		p := off + 1 + klen + 24
		vlen := uint64(t.memory[p])<<24 | uint64(t.memory[p+1])<<16 | uint64(t.memory[p+2])<<8 | uint64(t.memory[p+3])
		a.IndexedBytes += 1 + klen + 24 + 4 + vlen
		if t.offsetIndex.Contains(off) {
			a.OffsetsIndexed++
		}
	}
	a.OffsetIndexCard = t.offsetIndex.GetCardinality()
	return a
}
