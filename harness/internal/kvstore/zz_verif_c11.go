//go:build verif

package kvstore

import (
	"errors"
	"io"
	"strconv"
	"time"

	"github.com/olric-data/olric/internal/kvstore/entry"
	"github.com/olric-data/olric/pkg/storage"
)

// Reference model: a map from key index to the most recently stored entry.
type vpRef struct {
	present bool
	val     []byte
	ttl     int64
	ts      int64
}

var vpKeyNames = [3]string{"a", "b", "c"}

func vpHKey(i int) uint64 { return uint64(1000 + 7*i) }

// vpIdleNow: when set, recycled tables count as idle-expired at once (maxIdleTableTimeout = 0), so the
// table-dropping branch of Compaction is reachable without advancing a clock (and replays natively).
var vpIdleNow bool

func vpMkStore(size uint64) *KVStore {
	c := DefaultConfig()
	c.Add("tableSize", size)
	if vpIdleNow {
		c.Add("maxIdleTableTimeout", time.Duration(0))
	}
	s, err := New(c)
	if err != nil {
		panic(err)
	}
	f, err := s.Fork(nil)
	if err != nil {
		panic(err)
	}
	return f.(*KVStore)
}

// vpPickLen case-splits a value length over {0, 1, big}.
func vpPickLen(name string, big int) int {
	switch vpChoose(name, 3) {
	case 0:
		return 0
	case 1:
		return 1
	}
	return big
}

func vpMkEntry(k int, vlen int) *entry.Entry {
	e := entry.New()
	e.SetKey(vpKeyNames[k])
	e.SetValue(vpBytes("val", vlen))
	e.SetTTL(vpI64("ttl"))
	e.SetTimestamp(vpI64("ts"))
	return e
}

func vpCopyBytes(b []byte) []byte {
	c := make([]byte, len(b))
	copy(c, b)
	return c
}

// vpCheckStore compares every observable of the store with the reference model.
func vpCheckStore(s *KVStore, ref []vpRef) {
	n := 0
	for k := range ref {
		hk := vpHKey(k)
		r := ref[k]
		e, err := s.Get(hk)
		if r.present {
			n++
			vpAssert(err == nil, "get-present")
			if err != nil {
				continue
			}
			vpAssert(e.Key() == vpKeyNames[k], "get-key")
			vpAssert(vpBytesEq(e.Value(), r.val), "get-value")
			vpAssert(vpAnd(e.TTL() == r.ttl, e.Timestamp() == r.ts), "get-meta")
			ttl, err := s.GetTTL(hk)
			vpAssert(vpAnd(err == nil, ttl == r.ttl), "getttl")
			key, err := s.GetKey(hk)
			vpAssert(vpAnd(err == nil, key == vpKeyNames[k]), "getkey")
			raw, err := s.GetRaw(hk)
			vpAssert(err == nil, "getraw-present")
			if err == nil {
				d := entry.New()
				d.Decode(raw)
				vpAssert(vpAnd(d.Key() == vpKeyNames[k], vpBytesEq(d.Value(), r.val)), "getraw-value")
				vpAssert(vpAnd(d.TTL() == r.ttl, d.Timestamp() == r.ts), "getraw-meta")
			}
			vpAssert(s.Check(hk), "check-present")
		} else {
			vpAssert(errors.Is(err, storage.ErrKeyNotFound), "get-absent")
			_, err = s.GetRaw(hk)
			vpAssert(errors.Is(err, storage.ErrKeyNotFound), "getraw-absent")
			_, err = s.GetTTL(hk)
			vpAssert(errors.Is(err, storage.ErrKeyNotFound), "getttl-absent")
			vpAssert(!s.Check(hk), "check-absent")
		}
	}
	vpAssert(s.Stats().Length == n, "stats-length")
	// iteration visits exactly the present keys, once each
	seen := make([]int, len(ref))
	other := 0
	s.Range(func(hkey uint64, e storage.Entry) bool {
		found := false
		for k := range ref {
			if hkey == vpHKey(k) {
				seen[k]++
				found = true
				if ref[k].present {
					vpAssert(vpAnd(vpBytesEq(e.Value(), ref[k].val), e.Timestamp() == ref[k].ts), "range-entry")
				}
			}
		}
		if !found {
			other++
		}
		return true
	})
	for k := range ref {
		if ref[k].present {
			vpAssert(seen[k] == 1, "range-present-once")
		} else {
			vpAssert(seen[k] == 0, "range-absent")
		}
	}
	vpAssert(other == 0, "range-foreign")
	cnt := 0
	s.RangeHKey(func(hkey uint64) bool { cnt++; return true })
	vpAssert(cnt == n, "rangehkey-count")
	// so does the cursor iteration (Scan over the table index, one page)
	scanned, foreign := vpFullScan(s, len(ref), 10, "", 16)
	for k := range ref {
		if ref[k].present {
			vpAssert(scanned[k] == 1, "scan-present-once")
		} else {
			vpAssert(scanned[k] == 0, "scan-absent")
		}
	}
	vpAssert(foreign == 0, "scan-foreign")
}

// vpCompact runs compaction to completion and checks it terminates within the budget.
func vpCompact(s *KVStore, budget int) {
	done := false
	for i := 0; i < budget && !done; i++ {
		d, err := s.Compaction()
		vpAssert(err == nil, "compaction-error")
		done = d
	}
	vpAssert(done, "compaction-completes")
}

// vpTransfer exports every table of src and imports it into a fresh store; the callback must see
// every present key exactly once with its current entry and nothing else.
func vpTransfer(src *KVStore, ref []vpRef, size uint64) *KVStore {
	dst := vpMkStore(size)
	calls := make([]int, len(ref))
	it := src.TransferIterator()
	for rounds := 0; it.Next(); rounds++ {
		vpAssert(rounds < 8, "transfer-terminates")
		if rounds >= 8 {
			break
		}
		data, idx, err := it.Export()
		if err == io.EOF {
			break
		}
		vpAssert(err == nil, "export-error")
		err = dst.Import(data, func(hkey uint64, e storage.Entry) error {
			for k := range ref {
				if hkey == vpHKey(k) {
					calls[k]++
					vpAssert(ref[k].present, "import-absent-key")
					if ref[k].present {
						vpAssert(vpAnd(vpBytesEq(e.Value(), ref[k].val), vpAnd(e.TTL() == ref[k].ttl, e.Timestamp() == ref[k].ts)), "import-current-entry")
					}
				}
			}
			return dst.Put(hkey, e)
		})
		vpAssert(err == nil, "import-error")
		vpAssert(it.Drop(idx) == nil, "drop-error")
	}
	for k := range ref {
		if ref[k].present {
			vpAssert(calls[k] == 1, "import-present-once")
		}
	}
	return dst
}

// vpStep performs one script step of symbolic kind on the store and the reference model and returns
// the store to continue with (a transfer replaces it by the receiving store).
func vpStep(s *KVStore, ref []vpRef, nkeys, big int, size uint64, budget int, ops int) *KVStore {
	var op int
	if ops < 0 {
		// mutations only: Put, PutRaw, Delete, UpdateTTL
		op = [4]int{0, 1, 2, 4}[vpChoose("op", -ops)]
	} else {
		op = vpChoose("op", ops)
	}
	switch op {
	case 0, 1: // Put / PutRaw
		k := vpChoose("key", nkeys)
		vlen := vpPickLen("vlen", big)
		e := vpMkEntry(k, vlen)
		var err error
		if op == 0 {
			err = s.Put(vpHKey(k), e)
		} else {
			err = s.PutRaw(vpHKey(k), e.Encode())
		}
		if err == nil {
			ref[k] = vpRef{present: true, val: vpCopyBytes(e.Value()), ttl: e.TTL(), ts: e.Timestamp()}
		} else {
			vpAssert(errors.Is(err, storage.ErrEntryTooLarge), "put-error-kind")
			vpAssert(uint64(30+vlen) >= size, "put-too-large-only-when-it-does-not-fit")
		}
	case 2:
		k := vpChoose("key", nkeys)
		err := s.Delete(vpHKey(k))
		vpAssert(err == nil, "delete-error")
		ref[k] = vpRef{}
	case 3:
		vpCompact(s, budget)
	case 4:
		k := vpChoose("key", nkeys)
		e := entry.New()
		e.SetTTL(vpI64("ttl"))
		e.SetTimestamp(vpI64("ts"))
		err := s.UpdateTTL(vpHKey(k), e)
		if ref[k].present {
			vpAssert(err == nil, "updatettl-present")
			ref[k].ttl = e.TTL()
			ref[k].ts = e.Timestamp()
		} else {
			vpAssert(errors.Is(err, storage.ErrKeyNotFound), "updatettl-absent")
		}
	case 5:
		s = vpTransfer(s, ref, size)
	}
	return s
}

// VerifC11_Map: the store behaves as a map after every step of any script over
// {Put, PutRaw, Delete, UpdateTTL, Compaction, Transfer} with symbolic table size.
func VerifC11_Map() {
	nkeys := vpBound("keys")
	steps := vpBound("steps")
	big := vpBound("biglen")
	size := vpU64("tableSize")
	vpAssume(size >= 31 && size <= uint64(4*(30+big)))
	vpIdleNow = vpChoose("idle", 2) == 1
	s := vpMkStore(size)
	ref := make([]vpRef, nkeys)
	for i := 0; i < steps; i++ {
		s = vpStep(s, ref, nkeys, big, size, 2*steps+4, 6)
		vpCheckStore(s, ref)
	}
	vpReach("end")
}

// VerifC11_Transfer: any script over {Put, PutRaw, Delete, UpdateTTL} (so that tables hold dead versions and
// deleted entries), then a transfer of every table to a fresh store, then one more step: the receiving store
// equals the reference map.
func VerifC11_Transfer() {
	nkeys := vpBound("keys")
	steps := vpBound("steps")
	big := vpBound("biglen")
	size := vpU64("tableSize")
	vpAssume(size >= 31 && size <= uint64(4*(30+big)))
	s := vpMkStore(size)
	ref := make([]vpRef, nkeys)
	for i := 0; i < steps; i++ {
		s = vpStep(s, ref, nkeys, big, size, 2*steps+4, -4)
	}
	vpCheckStore(s, ref)
	s = vpTransfer(s, ref, size)
	vpCheckStore(s, ref)
	vpReach("end")
}

// VerifC11_Layouts: the map check of VerifC11_Map started from characteristic table layouts (a recycled table, a
// recycled table reused under a new coefficient, overwrite churn; recycled tables dropped when idle or kept), then
// any script over all six operations including compaction and transfer.
func VerifC11_Layouts() {
	nkeys := vpBound("keys")
	steps := vpBound("steps")
	big := vpBound("biglen")
	size := vpSizes[vpChoose("size", len(vpSizes))]
	vpIdleNow = vpChoose("idle", 2) == 1
	s := vpMkStore(size)
	ref := make([]vpRef, nkeys)
	vpPrepare(s, ref, 1+vpChoose("layout", 3))
	vpCheckStore(s, ref)
	for i := 0; i < steps; i++ {
		s = vpStep(s, ref, nkeys, big, size, 2*steps+8, 6)
		vpCheckStore(s, ref)
	}
	vpReach("end")
}

// VerifC11_LargeTable: compaction of a table that holds more live entries than one compaction call moves (the
// per-call limit of 1000): L live and L dead entries in one table, L around that limit; compaction runs to
// completion. Every live key is still there with its value, every deleted key is absent, the count is L.
func VerifC11_LargeTable() {
	live := [4]int{999, 1000, 1001, 1300}[vpChoose("live", 4)]
	total := 2 * live
	s := vpMkStore(uint64((total + 2) * 32))
	val := vpBytes("val", 1)
	for i := 0; i < total; i++ {
		e := entry.New()
		e.SetKey("k" + strconv.Itoa(i))
		e.SetValue(val)
		e.SetTimestamp(int64(i))
		vpAssume(s.Put(uint64(i+1), e) == nil)
	}
	for i := 0; i < live; i++ {
		vpAssume(s.Delete(uint64(2*i+1)) == nil) // every other key
	}
	vpCompact(s, 8)
	vpAssert(s.Stats().Length == live, "stats-length")
	for i := 0; i < total; i++ {
		e, err := s.Get(uint64(i + 1))
		if i%2 == 0 {
			vpAssert(errors.Is(err, storage.ErrKeyNotFound), "get-absent")
		} else {
			vpAssert(err == nil, "get-present")
			if err == nil {
				vpAssert(vpAnd(e.Key() == "k"+strconv.Itoa(i), vpBytesEq(e.Value(), val)), "get-value")
			}
		}
	}
	vpReach("end")
}
