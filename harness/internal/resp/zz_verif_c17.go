//go:build verif

package resp

import (
	"math"
	"time"
)

type vpBuf struct{ b []byte }

func (v *vpBuf) Write(p []byte) (int, error) {
	if len(v.b) == 0 {
		v.b = make([]byte, len(p))
		copy(v.b, p)
	} else {
		v.b = append(v.b, p...)
	}
	return len(p), nil
}
func (v *vpBuf) WriteByte(c byte) error            { v.b = append(v.b, c); return nil }
func (v *vpBuf) WriteString(s string) (int, error) { v.b = append(v.b, s...); return len(s), nil }

func vpEnc(v interface{}) []byte {
	b := &vpBuf{}
	err := New(b).Encode(v)
	vpAssert(err == nil, "encode-succeeds")
	return b.b
}

type vpBlob struct{ b []byte }

func (x vpBlob) MarshalBinary() ([]byte, error) { return x.b, nil }
func (x *vpBlob) UnmarshalBinary(b []byte) error {
	x.b = make([]byte, len(b))
	copy(x.b, b)
	return nil
}

var vpF64s = [12]float64{0, math.Copysign(0, -1), 1.5, -2.25, 0.1, 1e21, 123456789.125, math.MaxFloat64, -math.MaxFloat64,
	math.SmallestNonzeroFloat64, math.Inf(1), math.Inf(-1)}
var vpF32s = [8]float32{0, 1.5, -2.25, 0.1, 16777216, math.MaxFloat32, -math.MaxFloat32, math.SmallestNonzeroFloat32}

// VerifC17_RespRoundTrip: Scan(Encode(x)) == x into the same type, for every supported type: all integer widths,
// int/uint, time.Duration (any value of the type, chosen by the solver), bool, string and []byte of 0..3 arbitrary
// bytes, a BinaryMarshaler, nil, float64/float32 over a set of extremes and NaN. (time.Time is outside: the time package's
// formatting is not encoded.)
func VerifC17_RespRoundTrip() {
	switch vpChoose("type", 18) {
	case 0:
		x := vpInt("x")
		var y int
		vpAssert(Scan(vpEnc(x), &y) == nil && y == x, "int")
	case 1:
		x := int8(vpU8("x"))
		var y int8
		vpAssert(Scan(vpEnc(x), &y) == nil && y == x, "int8")
	case 2:
		x := int16(vpU32("x"))
		var y int16
		vpAssert(Scan(vpEnc(x), &y) == nil && y == x, "int16")
	case 3:
		x := int32(vpU32("x"))
		var y int32
		vpAssert(Scan(vpEnc(x), &y) == nil && y == x, "int32")
	case 4:
		x := vpI64("x")
		var y int64
		vpAssert(Scan(vpEnc(x), &y) == nil && y == x, "int64")
	case 5:
		x := uint(vpU64("x"))
		var y uint
		vpAssert(Scan(vpEnc(x), &y) == nil && y == x, "uint")
	case 6:
		x := vpU8("x")
		var y uint8
		vpAssert(Scan(vpEnc(x), &y) == nil && y == x, "uint8")
	case 7:
		x := uint16(vpU32("x"))
		var y uint16
		vpAssert(Scan(vpEnc(x), &y) == nil && y == x, "uint16")
	case 8:
		x := vpU32("x")
		var y uint32
		vpAssert(Scan(vpEnc(x), &y) == nil && y == x, "uint32")
	case 9:
		x := vpU64("x")
		var y uint64
		vpAssert(Scan(vpEnc(x), &y) == nil && y == x, "uint64")
	case 10:
		x := time.Duration(vpI64("x"))
		var y time.Duration
		vpAssert(Scan(vpEnc(x), &y) == nil && y == x, "duration")
	case 11:
		x := vpBool("x")
		var y bool
		vpAssert(Scan(vpEnc(x), &y) == nil && y == x, "bool")
	case 12:
		x := vpString("x", vpChoose("len", 4))
		var y string
		vpAssert(Scan(vpEnc(x), &y) == nil && y == x, "string")
	case 13:
		x := vpBytes("x", vpChoose("len", 4))
		var y []byte
		vpAssert(Scan(vpEnc(x), &y) == nil && vpBytesEq(y, x), "bytes")
	case 14:
		x := vpBlob{b: vpBytes("x", vpChoose("len", 4))}
		var y vpBlob
		vpAssert(Scan(vpEnc(x), &y) == nil && vpBytesEq(y.b, x.b), "binary-marshaler")
	case 15:
		var y string
		vpAssert(Scan(vpEnc(nil), &y) == nil && y == "", "nil-is-empty")
	case 16:
		x := vpF64s[vpChoose("f64", len(vpF64s))]
		var y float64
		vpAssert(Scan(vpEnc(x), &y) == nil && math.Float64bits(y) == math.Float64bits(x), "float64")
		if vpChoose("nan", 2) == 1 {
			var z float64
			vpAssert(Scan(vpEnc(math.NaN()), &z) == nil && z != z, "float64-nan")
		}
	case 17:
		x := vpF32s[vpChoose("f32", len(vpF32s))]
		var y float32
		vpAssert(Scan(vpEnc(x), &y) == nil && math.Float32bits(y) == math.Float32bits(x), "float32")
	}
	vpReach("end")
}
