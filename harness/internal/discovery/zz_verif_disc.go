//go:build verif

package discovery

import (
	"github.com/hashicorp/memberlist"
	"github.com/olric-data/olric/config"
	"github.com/olric-data/olric/pkg/flog"
)

// VerifNew builds a Discovery around a hand-made memberlist view.
func VerifNew(this Member, ml *memberlist.Memberlist, c *config.Config, log *flog.Logger) *Discovery {
	return &Discovery{member: &this, memberlist: ml, config: c, log: log}
}

// VerifNode renders a member as the memberlist node it would appear as (metadata = encoded member).
func VerifNode(m Member) *memberlist.Node {
	meta, err := m.Encode()
	if err != nil {
		panic(err)
	}
	return &memberlist.Node{Name: m.Name, Meta: meta}
}

func (d *Discovery) VerifMemberlist() *memberlist.Memberlist { return d.memberlist }
