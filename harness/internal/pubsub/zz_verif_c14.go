//go:build verif

package pubsub

import (
	"context"
	"io"
	"net"
	"sync"
	"sync/atomic"

	"github.com/tidwall/redcon"
)

// vpConn is a recording redcon.Conn / redcon.DetachedConn: every flushed array reply is one message.
type vpConn struct {
	id     int
	closed atomic.Bool
	cur    []string
	msgs   [][]string
	mu     sync.Mutex
	queue  []redcon.Command // commands the client sends while in subscribed mode
	idle   bool             // the command loop is waiting for the next command
}

func (c *vpConn) RemoteAddr() string             { return "vp" }
func (c *vpConn) Close() error                   { return nil }
func (c *vpConn) WriteError(msg string)          { c.cur = append(c.cur, "-"+msg) }
func (c *vpConn) WriteString(str string)         { c.cur = append(c.cur, "+"+str) }
func (c *vpConn) WriteBulk(bulk []byte)          { c.cur = append(c.cur, string(bulk)) }
func (c *vpConn) WriteBulkString(bulk string)    { c.cur = append(c.cur, bulk) }
func (c *vpConn) WriteInt(num int)               { c.cur = append(c.cur, ":int") }
func (c *vpConn) WriteInt64(num int64)           { c.cur = append(c.cur, ":int") }
func (c *vpConn) WriteUint64(num uint64)         { c.cur = append(c.cur, ":int") }
func (c *vpConn) WriteArray(count int)           {}
func (c *vpConn) WriteNull()                     { c.cur = append(c.cur, "$nil") }
func (c *vpConn) WriteRaw(data []byte)           {}
func (c *vpConn) WriteAny(any interface{})       {}
func (c *vpConn) Context() interface{}           { return nil }
func (c *vpConn) SetContext(v interface{})       {}
func (c *vpConn) SetReadBuffer(bytes int)        {}
func (c *vpConn) Detach() redcon.DetachedConn    { return c }
func (c *vpConn) ReadPipeline() []redcon.Command { return nil }
func (c *vpConn) PeekPipeline() []redcon.Command { return nil }
func (c *vpConn) NetConn() net.Conn              { return nil }
func (c *vpConn) Flush() error {
	if len(c.cur) > 0 {
		c.msgs = append(c.msgs, c.cur)
		c.cur = nil
	}
	return nil
}

// ReadCommand hands the connection's command loop the next command the harness queued; when the harness disconnects
// the connection it reports EOF (the background runner of the connection then removes all of its subscriptions).
func (c *vpConn) ReadCommand() (redcon.Command, error) {
	c.mu.Lock()
	c.idle = len(c.queue) == 0
	c.mu.Unlock()
	vpWaitUntil(func() bool {
		c.mu.Lock()
		defer c.mu.Unlock()
		return c.closed.Load() || len(c.queue) > 0
	})
	c.mu.Lock()
	defer c.mu.Unlock()
	if len(c.queue) > 0 {
		cmd := c.queue[0]
		c.queue = c.queue[1:]
		c.idle = false
		return cmd, nil
	}
	return redcon.Command{}, io.EOF
}

// vpSend queues one command for the connection's command loop and waits until the loop has processed it.
func (c *vpConn) vpSend(words ...string) {
	args := make([][]byte, len(words))
	for i, w := range words {
		args[i] = []byte(w)
	}
	c.mu.Lock()
	c.queue = append(c.queue, redcon.Command{Args: args})
	c.idle = false
	c.mu.Unlock()
	vpRunPending()
	vpWaitUntil(func() bool {
		c.mu.Lock()
		defer c.mu.Unlock()
		return c.idle && len(c.queue) == 0
	})
}

var _ = context.Background

// reference model
type vpSubs struct {
	exact map[string]bool
	pat   map[string]bool
}

// vpName returns a symbolic name of 1 or 2 bytes over the given alphabet ("ab" for channels, "ab*?" for
// patterns): equal names, prefix relations, overlapping and non-matching patterns are all solver-chosen.
func vpName(what string, pattern bool) string {
	n := 1 + vpChoose(what+"len", 2)
	b := vpBytes(what, n)
	for i := range b {
		if pattern {
			vpAssume(b[i] == 'a' || b[i] == 'b' || b[i] == '*' || b[i] == '?')
		} else {
			vpAssume(b[i] == 'a' || b[i] == 'b')
		}
	}
	return string(b)
}

// vpMatches is an independent reference glob matcher ('*' any sequence, '?' any single byte).
func vpMatches(pattern, channel string) bool {
	if len(pattern) == 0 {
		return len(channel) == 0
	}
	switch pattern[0] {
	case '*':
		for k := 0; k <= len(channel); k++ {
			if vpMatches(pattern[1:], channel[k:]) {
				return true
			}
		}
		return false
	case '?':
		return len(channel) >= 1 && vpMatches(pattern[1:], channel[1:])
	}
	return len(channel) >= 1 && channel[0] == pattern[0] && vpMatches(pattern[1:], channel[1:])
}

func vpCountMsgs(msgs [][]string, kind, pat, ch, payload string) int {
	n := 0
	for _, m := range msgs {
		if kind == "message" && len(m) == 3 && m[0] == "message" && m[1] == ch && m[2] == payload {
			n++
		}
		if kind == "pmessage" && len(m) == 4 && m[0] == "pmessage" && m[1] == pat && m[2] == ch && m[3] == payload {
			n++
		}
	}
	return n
}

func vpCountKind(msgs [][]string) int {
	n := 0
	for _, m := range msgs {
		if len(m) > 0 && (m[0] == "message" || m[0] == "pmessage") {
			n++
		}
	}
	return n
}

func vpKeys(m map[string]bool) []string {
	var ks []string
	for k, v := range m {
		if v {
			ks = append(ks, k)
		}
	}
	return ks
}

// VerifC14_PubSub: for every script of subscribe / psubscribe / unsubscribe / punsubscribe / publish /
// disconnect over two connections with solver-chosen channel and pattern names, each publish is delivered
// exactly once per matching subscription and to nobody else, PUBLISH returns the number of deliveries, and
// CHANNELS / NUMSUB / NUMPAT report the current distinct subscriptions.
func VerifC14_PubSub() {
	steps := vpBound("steps")
	vpGoMode("defer")
	ps := &PubSub{}
	conns := [2]*vpConn{{id: 0}, {id: 1}}
	ref := [2]vpSubs{{exact: map[string]bool{}, pat: map[string]bool{}}, {exact: map[string]bool{}, pat: map[string]bool{}}}
	gone := [2]bool{}
	for i := 0; i < steps; i++ {
		op := vpChoose("op", 7+vpBound("multi"))
		switch op {
		case 0, 1: // subscribe / psubscribe
			c := vpChoose("conn", 2)
			if gone[c] {
				vpAssume(false)
			}
			if op == 0 {
				ch := vpName("chan", false)
				ps.Subscribe(conns[c], ch)
				ref[c].exact[ch] = true
			} else {
				p := vpName("pat", true)
				ps.Psubscribe(conns[c], p)
				ref[c].pat[p] = true
			}
		case 2, 3: // unsubscribe one / punsubscribe one
			c := vpChoose("conn", 2)
			if gone[c] || (len(ref[c].exact) == 0 && len(ref[c].pat) == 0) {
				vpAssume(false) // unsubscribe needs a connection that is in subscribed mode
			}
			if op == 2 {
				ch := vpName("chan", false)
				ps.unsubscribe(conns[c], false, false, ch)
				delete(ref[c].exact, ch)
			} else {
				p := vpName("pat", true)
				ps.unsubscribe(conns[c], true, false, p)
				delete(ref[c].pat, p)
			}
		case 4: // unsubscribe all of one kind
			c := vpChoose("conn", 2)
			if gone[c] || (len(ref[c].exact) == 0 && len(ref[c].pat) == 0) {
				vpAssume(false)
			}
			if vpChoose("kind", 2) == 0 {
				ps.unsubscribe(conns[c], false, true, "")
				ref[c].exact = map[string]bool{}
			} else {
				ps.unsubscribe(conns[c], true, true, "")
				ref[c].pat = map[string]bool{}
			}
		case 7: // one UNSUBSCRIBE / PUNSUBSCRIBE command naming two channels or patterns, through the command loop
			c := vpChoose("conn", 2)
			if gone[c] || (len(ref[c].exact) == 0 && len(ref[c].pat) == 0) {
				vpAssume(false)
			}
			if vpChoose("kind", 2) == 0 {
				n1, n2 := vpName("chan", false), vpName("chan", false)
				conns[c].vpSend("unsubscribe", n1, n2)
				delete(ref[c].exact, n1)
				delete(ref[c].exact, n2)
			} else {
				n1, n2 := vpName("pat", true), vpName("pat", true)
				conns[c].vpSend("PUNSUBSCRIBE", n1, n2)
				delete(ref[c].pat, n1)
				delete(ref[c].pat, n2)
			}
		case 5: // disconnect
			c := vpChoose("conn", 2)
			if gone[c] || (len(ref[c].exact) == 0 && len(ref[c].pat) == 0) {
				vpAssume(false)
			}
			conns[c].closed.Store(true)
			vpRunPending()
			cc := conns[c]
			vpWaitUntil(func() bool {
				ps.mu.RLock()
				defer ps.mu.RUnlock()
				_, ok := ps.conns[cc]
				return !ok
			})
			gone[c] = true
			ref[c] = vpSubs{exact: map[string]bool{}, pat: map[string]bool{}}
		case 6: // publish
			ch := vpName("chan", false)
			payload := string(vpBytes("msg", 1))
			before := [2]int{len(conns[0].msgs), len(conns[1].msgs)}
			n := ps.Publish(ch, payload)
			want := 0
			for c := 0; c < 2; c++ {
				fresh := conns[c].msgs[before[c]:]
				wc := 0
				if ref[c].exact[ch] {
					wc++
					vpAssert(vpCountMsgs(fresh, "message", "", ch, payload) == 1, "exact-subscriber-gets-message-once")
				}
				for _, p := range vpKeys(ref[c].pat) {
					if vpMatches(p, ch) {
						wc++
						vpAssert(vpCountMsgs(fresh, "pmessage", p, ch, payload) == 1, "pattern-subscriber-gets-pmessage-once")
					}
				}
				vpAssert(vpCountKind(fresh) == wc, "no-delivery-to-non-subscriber")
				want += wc
			}
			vpAssert(n == want, "publish-returns-number-of-deliveries")
		}
		// introspection: every channel some connection is subscribed to is listed exactly once with the right
		// subscriber count, nothing else is listed
		chans := ps.Channels()
		distinct := map[string]bool{}
		for c := 0; c < 2; c++ {
			for _, ch := range vpKeys(ref[c].exact) {
				distinct[ch] = true
			}
		}
		for _, ch := range vpKeys(distinct) {
			n := 0
			for c := 0; c < 2; c++ {
				if ref[c].exact[ch] {
					n++
				}
			}
			vpAssert(ps.Numsub(ch) == n, "numsub")
			cnt := 0
			for _, x := range chans {
				if x == ch {
					cnt++
				}
			}
			vpAssert(cnt == 1, "channels-lists-subscribed-channel-once")
		}
		vpAssert(len(chans) == len(vpKeys(distinct)), "channels-lists-nothing-else")
		// PUBSUB CHANNELS <pattern>: the distinct channels matching the pattern, asked twice (a query must not leave
		// anything behind that stops the next one)
		for round := 0; round < 2; round++ {
			pat := "a*"
			if round == 1 {
				pat = "*"
			}
			got := ps.ChannelsWithPatterns(pat)
			wantN := 0
			for _, ch := range vpKeys(distinct) {
				if vpMatches(pat, ch) {
					wantN++
					cnt := 0
					for _, x := range got {
						if x == ch {
							cnt++
						}
					}
					vpAssert(cnt == 1, "channels-with-pattern-lists-matching-channel-once")
				}
			}
			vpAssert(len(got) == wantN, "channels-with-pattern-lists-nothing-else")
		}
		pats := map[string]bool{}
		for c := 0; c < 2; c++ {
			for _, p := range vpKeys(ref[c].pat) {
				pats[p] = true
			}
		}
		vpAssert(ps.Numpat() == len(vpKeys(pats)), "numpat")
		// a pattern subscription whose text equals a channel name is not a channel subscriber
		for _, p := range vpKeys(pats) {
			if !distinct[p] {
				vpAssert(ps.Numsub(p) == 0, "numsub-ignores-pattern-subscriptions")
			}
		}
	}
	vpReach("end")
}
