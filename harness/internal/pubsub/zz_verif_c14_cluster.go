//go:build verif

package pubsub

import (
	"context"
	"errors"
	"io"
	"log"
	"strconv"

	"github.com/olric-data/olric/config"
	"github.com/olric-data/olric/internal/cluster/partitions"
	"github.com/olric-data/olric/internal/cluster/routingtable"
	"github.com/olric-data/olric/internal/discovery"
	"github.com/olric-data/olric/internal/protocol"
	"github.com/olric-data/olric/internal/server"
	"github.com/olric-data/olric/pkg/flog"
	"github.com/redis/go-redis/v9"
	"github.com/tidwall/redcon"
)

// Two members, each with a real pubsub Service; PUBLISH is served by the real publishCommandHandler of the member the
// publisher is connected to, which forwards PUBLISH.INTERNAL to every other member through the loopback.

var vpSvcs []*Service
var vpSvcNames []string

type vpHook struct{ addr string }

func (h vpHook) DialHook(next redis.DialHook) redis.DialHook { return next }
func (h vpHook) ProcessHook(next redis.ProcessHook) redis.ProcessHook {
	return func(ctx context.Context, cmd redis.Cmder) error { return vpProcess(h.addr, ctx, cmd) }
}
func (h vpHook) ProcessPipelineHook(next redis.ProcessPipelineHook) redis.ProcessPipelineHook {
	return next
}

// recording connection for handler replies (integers are kept)
type vpReplyConn struct {
	redcon.Conn
	ints []int
	errs []string
}

func (c *vpReplyConn) WriteError(msg string)  { c.errs = append(c.errs, msg) }
func (c *vpReplyConn) WriteInt(num int)       { c.ints = append(c.ints, num) }
func (c *vpReplyConn) WriteInt64(num int64)   { c.ints = append(c.ints, int(num)) }
func (c *vpReplyConn) WriteString(str string) {}

func vpArgs(words ...string) redcon.Command {
	args := make([][]byte, len(words))
	for i, w := range words {
		args[i] = []byte(w)
	}
	return redcon.Command{Args: args}
}

// vpProcess delivers an inter-member command to the addressed member's real handler.
func vpProcess(addr string, ctx context.Context, cmd redis.Cmder) error {
	for i, n := range vpSvcNames {
		if n != addr {
			continue
		}
		var words []string
		for _, a := range cmd.Args() {
			switch v := a.(type) {
			case string:
				words = append(words, v)
			case []byte:
				words = append(words, string(v))
			default:
				return errors.New("vp: unsupported argument type")
			}
		}
		conn := &vpReplyConn{}
		switch cmd.Name() {
		case protocol.PubSub.PublishInternal:
			vpSvcs[i].publishInternalCommandHandler(conn, vpArgs(words...))
		default:
			return errors.New("ERR unknown command '" + cmd.Name() + "'")
		}
		if len(conn.errs) > 0 {
			err := errors.New(conn.errs[0])
			cmd.SetErr(err)
			return err
		}
		if ic, ok := cmd.(*redis.IntCmd); ok && len(conn.ints) == 1 {
			ic.SetVal(int64(conn.ints[0]))
			return nil
		}
		return errors.New("vp: unexpected reply")
	}
	return errors.New("dial tcp: connect: connection refused")
}

func vpNewPubSubCluster(n int) []*Service {
	vpSvcs, vpSvcNames = nil, nil
	lg := flog.New(log.New(io.Discard, "", 0))
	var live []discovery.Member
	for i := 0; i < n; i++ {
		name := "m" + strconv.Itoa(i) + ":3320"
		live = append(live, discovery.Member{Name: name, NameHash: uint64(100 + i), ID: uint64(1000 + i), Birthdate: int64(1 + i)})
		vpSvcNames = append(vpSvcNames, name)
	}
	pos := map[string]uint64{}
	for i, m := range live {
		pos[m.Name+"0"], pos[m.Name+"1"], pos[m.Name] = uint64(i*10+5), uint64(i*10+7), uint64(i*10+6)
	}
	const parts = 4
	for q := 0; q < parts; q++ {
		pos[string([]byte{byte(q), 0, 0, 0, 0, 0, 0, 0})] = uint64(q%n)*10 + 1
	}
	for i := 0; i < n; i++ {
		c := &config.Config{PartitionCount: parts, ReplicaCount: 1, ReadQuorum: 1, WriteQuorum: 1, MemberCountQuorum: 1, Logger: log.New(io.Discard, "", 0)}
		rt := routingtable.VerifNew(live[i], c, partitions.New(parts, partitions.PRIMARY), partitions.New(parts, partitions.BACKUP), int32(n), 0)
		client := server.NewClient(nil)
		rt.VerifAttach(live, routingtable.VerifRingHasher{Pos: pos}, client, lg)
		for _, m := range live {
			client.Get(m.Name).AddHook(vpHook{addr: m.Name})
		}
		vpSvcs = append(vpSvcs, &Service{log: lg, pubsub: &PubSub{}, rt: rt, client: client, ctx: context.Background()})
	}
	return vpSvcs
}

// small concrete alphabets (the solver-chosen names are VerifC14_PubSub's job; here the members vary)
var vpClChans = [3]string{"a", "b", "ab"}
var vpClPats = [4]string{"a*", "?", "*b", "a"}

// VerifC14_Cluster: subscriptions live on two members (connection c is connected to member c); every script of
// SUBSCRIBE / PSUBSCRIBE (through the members' real command handlers, solver-chosen names) and PUBLISH through either
// member: the message reaches every matching subscription on every member exactly once and nobody else, and the
// number PUBLISH returns is the number of deliveries in the whole cluster.
func VerifC14_Cluster() {
	steps := vpBound("steps")
	vpGoMode("defer")
	svcs := vpNewPubSubCluster(2)
	conns := [2]*vpConn{{id: 0}, {id: 1}}
	ref := [2]vpSubs{{exact: map[string]bool{}, pat: map[string]bool{}}, {exact: map[string]bool{}, pat: map[string]bool{}}}
	published := 0
	for i := 0; i < steps; i++ {
		op := vpChoose("op", 3)
		if i == steps-1 {
			op = 2 // every script ends with a publish
		}
		switch op {
		case 0:
			c := vpChoose("conn", 2)
			ch := vpClChans[vpChoose("chan", len(vpClChans))]
			svcs[c].subscribeCommandHandler(conns[c], vpArgs("subscribe", ch))
			ref[c].exact[ch] = true
		case 1:
			c := vpChoose("conn", 2)
			p := vpClPats[vpChoose("pat", len(vpClPats))]
			svcs[c].psubscribeCommandHandler(conns[c], vpArgs("psubscribe", p))
			ref[c].pat[p] = true
		case 2:
			via := vpChoose("via", 2)
			ch := vpClChans[vpChoose("chan", len(vpClChans))]
			payload := string([]byte{byte('0' + published)})
			published++
			before := [2]int{len(conns[0].msgs), len(conns[1].msgs)}
			rc := &vpReplyConn{}
			svcs[via].publishCommandHandler(rc, vpArgs("publish", ch, payload))
			vpRunPending()
			vpAssert(len(rc.errs) == 0 && len(rc.ints) == 1, "publish-replies-with-a-count")
			want := 0
			for c := 0; c < 2; c++ {
				fresh := conns[c].msgs[before[c]:]
				wc := 0
				if ref[c].exact[ch] {
					wc++
					vpAssert(vpCountMsgs(fresh, "message", "", ch, payload) == 1, "exact-subscriber-on-any-member-gets-message-once")
				}
				for _, p := range vpKeys(ref[c].pat) {
					if vpMatches(p, ch) {
						wc++
						vpAssert(vpCountMsgs(fresh, "pmessage", p, ch, payload) == 1, "pattern-subscriber-on-any-member-gets-pmessage-once")
					}
				}
				vpAssert(vpCountKind(fresh) == wc, "no-delivery-to-non-subscriber")
				want += wc
			}
			if len(rc.ints) == 1 {
				vpAssert(rc.ints[0] == want, "publish-returns-cluster-wide-number-of-deliveries")
			}
		}
	}
	vpReach("end")
}

// VerifC14_Churn: subscriber churn on one member. Connections A and B subscribe (channel or pattern, solver-chosen
// names), optionally A disconnects, then a new connection C subscribes, then a message is published on a
// solver-chosen channel: every live matching subscription gets it exactly once, the departed one nothing, PUBLISH
// returns the number of deliveries and NUMSUB counts the live subscribers.
func VerifC14_Churn() {
	vpGoMode("defer")
	ps := &PubSub{}
	conns := [3]*vpConn{{id: 0}, {id: 1}, {id: 2}}
	ref := [3]vpSubs{}
	for i := range ref {
		ref[i] = vpSubs{exact: map[string]bool{}, pat: map[string]bool{}}
	}
	sub := func(c int) {
		if vpChoose("kind", 2) == 0 {
			ch := vpClChans[vpChoose("chan", len(vpClChans))]
			ps.Subscribe(conns[c], ch)
			ref[c].exact[ch] = true
		} else {
			p := vpClPats[vpChoose("pat", len(vpClPats))]
			ps.Psubscribe(conns[c], p)
			ref[c].pat[p] = true
		}
	}
	sub(0)
	sub(1)
	if vpChoose("a-disconnects", 2) == 1 {
		conns[0].closed.Store(true)
		vpRunPending()
		cc := conns[0]
		vpWaitUntil(func() bool {
			ps.mu.RLock()
			defer ps.mu.RUnlock()
			_, ok := ps.conns[cc]
			return !ok
		})
		ref[0] = vpSubs{exact: map[string]bool{}, pat: map[string]bool{}}
	}
	sub(2)
	ch := vpClChans[vpChoose("pub", len(vpClChans))]
	n := ps.Publish(ch, "m")
	vpRunPending()
	want, subs := 0, 0
	for c := 0; c < 3; c++ {
		wc := 0
		if ref[c].exact[ch] {
			wc++
			subs++
			vpAssert(vpCountMsgs(conns[c].msgs, "message", "", ch, "m") == 1, "exact-subscriber-gets-message-once")
		}
		for _, p := range vpKeys(ref[c].pat) {
			if vpMatches(p, ch) {
				wc++
				vpAssert(vpCountMsgs(conns[c].msgs, "pmessage", p, ch, "m") == 1, "pattern-subscriber-gets-pmessage-once")
			}
		}
		vpAssert(vpCountKind(conns[c].msgs) == wc, "no-delivery-to-non-subscriber")
		want += wc
	}
	vpAssert(n == want, "publish-returns-number-of-deliveries")
	vpAssert(ps.Numsub(ch) == subs, "numsub-counts-live-subscribers")
	vpReach("end")
}
