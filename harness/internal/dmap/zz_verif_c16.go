//go:build verif

package dmap

import (
	"context"

	"github.com/tidwall/redcon"
)

type vpHandler struct {
	name string
	f    func(s *Service, c redcon.Conn, cmd redcon.Command)
}

func vpHandlers() []vpHandler {
	return []vpHandler{
		{"put", func(s *Service, c redcon.Conn, cmd redcon.Command) { s.putCommandHandler(c, cmd) }},
		{"get", func(s *Service, c redcon.Conn, cmd redcon.Command) { s.getCommandHandler(c, cmd) }},
		{"del", func(s *Service, c redcon.Conn, cmd redcon.Command) { s.delCommandHandler(c, cmd) }},
		{"delentry", func(s *Service, c redcon.Conn, cmd redcon.Command) { s.delEntryCommandHandler(c, cmd) }},
		{"getentry", func(s *Service, c redcon.Conn, cmd redcon.Command) { s.getEntryCommandHandler(c, cmd) }},
		{"putentry", func(s *Service, c redcon.Conn, cmd redcon.Command) { s.putEntryCommandHandler(c, cmd) }},
		{"expire", func(s *Service, c redcon.Conn, cmd redcon.Command) { s.expireCommandHandler(c, cmd) }},
		{"pexpire", func(s *Service, c redcon.Conn, cmd redcon.Command) { s.pexpireCommandHandler(c, cmd) }},
		{"scan", func(s *Service, c redcon.Conn, cmd redcon.Command) { s.scanCommandHandler(c, cmd) }},
		{"incr", func(s *Service, c redcon.Conn, cmd redcon.Command) { s.incrCommandHandler(c, cmd) }},
		{"decr", func(s *Service, c redcon.Conn, cmd redcon.Command) { s.decrCommandHandler(c, cmd) }},
		{"getput", func(s *Service, c redcon.Conn, cmd redcon.Command) { s.getPutCommandHandler(c, cmd) }},
		{"lock", func(s *Service, c redcon.Conn, cmd redcon.Command) { s.lockCommandHandler(c, cmd) }},
		{"unlock", func(s *Service, c redcon.Conn, cmd redcon.Command) { s.unlockCommandHandler(c, cmd) }},
		{"locklease", func(s *Service, c redcon.Conn, cmd redcon.Command) { s.lockLeaseCommandHandler(c, cmd) }},
		{"plocklease", func(s *Service, c redcon.Conn, cmd redcon.Command) { s.plockLeaseCommandHandler(c, cmd) }},
		{"destroy", func(s *Service, c redcon.Conn, cmd redcon.Command) { s.destroyCommandHandler(c, cmd) }},
	}
}

var vpHArgNames = [8]string{"h0", "h1", "h2", "h3", "h4", "h5", "h6", "h7"}

// VerifC16_Handlers: every DMap command handler, on a member that already holds a DMap "d" with a key, answers
// (value or error reply) for every argument vector of 1..maxargs arguments - positional arguments either the
// existing names "d" / "k" / "0" or arbitrary short byte strings, option arguments arbitrary lazily decided byte
// strings - without panicking, spinning, or leaving the reply empty.
func VerifC16_Handlers() {
	maxArgs := vpBound("maxargs")
	maxLen := vpBound("maxlen")
	vpNoTimers() // a Lock with a positive deadline waits on its timer: that path ends as "waiting", it is not a wedge
	cl := vpNewCluster(vpClusterConfig{members: 1, replicaCount: 1, writeQuorum: 1, readQuorum: 1, partitions: 1})
	cl.vpSetOwners(0, []int{0}, nil)
	s := cl.members[0].svc
	vpAssume(vpDMap(cl.members[0], "d").Put(context.Background(), "k", []byte("7"), nil) == nil)
	hs := vpHandlers()
	h := hs[vpChoose("handler", len(hs))]
	n := 1 + vpChoose("nargs", maxArgs)
	args := make([][]byte, n)
	args[0] = []byte(h.name)
	for i := 1; i < n; i++ {
		switch {
		case i <= 3:
			switch vpChoose("pos", 4) {
			case 0:
				args[i] = []byte("d")
			case 1:
				args[i] = []byte("k")
			case 2:
				args[i] = []byte("0")
			default:
				args[i] = vpBytes(vpHArgNames[i], 1)
			}
		default:
			args[i] = vpLazyBytes(vpHArgNames[i], maxLen)
		}
	}
	conn := &vpRConn{}
	h.f(s, conn, redcon.Command{Args: args})
	vpAssert(len(conn.items) > 0, "handler-always-replies")
	vpReach("end")
}

// VerifC16_ScanHandler: the DM.SCAN handler with well-formed positional arguments (partition 0, DMap "d", cursor 0)
// and 1..maxopts option arguments of arbitrary lazily decided bytes (COUNT <anything>, MATCH <anything>, REPLICA,
// unknown words, missing values): no panic, no spinning, always a reply.
func VerifC16_ScanHandler() {
	maxOpts := vpBound("maxopts")
	maxLen := vpBound("maxlen")
	cl := vpNewCluster(vpClusterConfig{members: 1, replicaCount: 1, writeQuorum: 1, readQuorum: 1, partitions: 1})
	cl.vpSetOwners(0, []int{0}, nil)
	s := cl.members[0].svc
	vpAssume(vpDMap(cl.members[0], "d").Put(context.Background(), "k", []byte("7"), nil) == nil)
	n := 1 + vpChoose("nopts", maxOpts)
	args := [][]byte{[]byte("scan"), []byte("0"), []byte("d"), []byte("0")}
	for i := 0; i < n; i++ {
		args = append(args, vpLazyBytes(vpHArgNames[i], maxLen))
	}
	conn := &vpRConn{}
	s.scanCommandHandler(conn, redcon.Command{Args: args})
	vpAssert(len(conn.items) > 0, "handler-always-replies")
	vpReach("end")
}
