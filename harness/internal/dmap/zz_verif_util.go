//go:build verif

package dmap

import (
	"github.com/olric-data/olric/internal/cluster/partitions"
	"github.com/olric-data/olric/pkg/storage"
)

func vpDMap(m *vpMember, name string) *DMap {
	dm, err := m.svc.getOrCreateDMap(name)
	if err != nil {
		panic(err)
	}
	return dm
}

// vpPlace writes an entry straight into a member's fragment of the given kind (a copy left behind by an
// earlier replication, hand-over or partition).
func vpPlace(m *vpMember, name, key string, val []byte, ttl, ts int64, kind partitions.Kind) {
	dm := vpDMap(m, name)
	hkey := partitions.HKey(name, key)
	part := dm.getPartitionByHKey(hkey, kind)
	f, err := dm.loadOrCreateFragment(part)
	if err != nil {
		panic(err)
	}
	e := f.storage.NewEntry()
	e.SetKey(key)
	e.SetValue(val)
	e.SetTTL(ttl)
	e.SetTimestamp(ts)
	if err := f.storage.Put(hkey, e); err != nil {
		panic(err)
	}
}

// vpCopy reads a member's own copy (no expiry filtering, no RPC).
func vpCopy(m *vpMember, name, key string, kind partitions.Kind) (storage.Entry, bool) {
	dm, err := m.svc.getDMap(name)
	if err != nil {
		return nil, false
	}
	hkey := partitions.HKey(name, key)
	part := dm.getPartitionByHKey(hkey, kind)
	f, err := dm.loadFragment(part)
	if err != nil {
		return nil, false
	}
	e, err := f.storage.Get(hkey)
	if err != nil {
		return nil, false
	}
	return e, true
}

func vpIntList(from, to int) []int {
	var l []int
	for i := from; i < to; i++ {
		l = append(l, i)
	}
	return l
}
