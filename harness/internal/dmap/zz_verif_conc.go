//go:build verif

package dmap

import (
	"context"
	"errors"
)

// sequential specification of one key for the linearizability check
type vpKV struct {
	present bool
	val     byte
}

type vpOpRes struct {
	kind int // 0 ok, 1 key-found, 2 key-not-found
	val  byte
}

// op kinds: 0 Put, 1 Put NX, 2 Put XX, 3 Get, 4 Delete
func vpSeqApply(s vpKV, op int, v byte) (vpKV, vpOpRes) {
	switch op {
	case 0:
		return vpKV{true, v}, vpOpRes{}
	case 1:
		if s.present {
			return s, vpOpRes{kind: 1}
		}
		return vpKV{true, v}, vpOpRes{}
	case 2:
		if !s.present {
			return s, vpOpRes{kind: 2}
		}
		return vpKV{true, v}, vpOpRes{}
	case 3:
		if !s.present {
			return s, vpOpRes{kind: 2}
		}
		return s, vpOpRes{val: s.val}
	}
	return vpKV{}, vpOpRes{}
}

func vpDoOp(dm *DMap, op int, v byte) vpOpRes {
	ctx := context.Background()
	var err error
	var res vpOpRes
	switch op {
	case 0:
		err = dm.Put(ctx, "k", []byte{v}, nil)
	case 1:
		err = dm.Put(ctx, "k", []byte{v}, &PutConfig{HasNX: true})
	case 2:
		err = dm.Put(ctx, "k", []byte{v}, &PutConfig{HasXX: true})
	case 3:
		e, gerr := dm.Get(ctx, "k")
		err = gerr
		if gerr == nil && len(e.Value()) == 1 {
			res.val = e.Value()[0]
		}
	case 4:
		_, err = dm.Delete(ctx, "k")
	}
	switch {
	case err == nil:
	case errors.Is(err, ErrKeyFound):
		res.kind = 1
	case errors.Is(err, ErrKeyNotFound):
		res.kind = 2
	default:
		res.kind = 9
	}
	return res
}

// VerifC01_Concurrent: two clients each issue one operation of solver-chosen kind (Put, Put NX, Put XX, Get, Delete)
// on the same key, through the owner or another member, from an initial state with or without the key; every
// interleaving at the granularity of the fragment-lock sections and RPC boundaries is explored. The two results and
// the final state must be those of one of the two sequential orders (both are admissible: the operations overlap).
func VerifC01_Concurrent() {
	replicas := 1 + vpChoose("replicas", 2)
	cl := vpTwoMembers(replicas, 0)
	init := vpKV{}
	if vpChoose("init", 2) == 1 {
		init = vpKV{true, 'i'}
		vpAssume(vpDMap(cl.members[0], "d").Put(context.Background(), "k", []byte{'i'}, nil) == nil)
	}
	opA, opB := vpChoose("opA", 5), vpChoose("opB", 5)
	entA, entB := vpChoose("entryA", 2), vpChoose("entryB", 2)
	dmA, dmB := vpDMap(cl.members[entA], "d"), vpDMap(cl.members[entB], "d")
	var rA, rB vpOpRes
	vpGo(func() { rA = vpDoOp(dmA, opA, 'a') })
	vpGo(func() { rB = vpDoOp(dmB, opB, 'b') })
	vpJoin()
	fin := vpKV{}
	if e, err := vpDMap(cl.members[0], "d").Get(context.Background(), "k"); err == nil && len(e.Value()) == 1 {
		fin = vpKV{true, e.Value()[0]}
	}
	// order A;B
	s1, wA1 := vpSeqApply(init, opA, 'a')
	s1, wB1 := vpSeqApply(s1, opB, 'b')
	// order B;A
	s2, wB2 := vpSeqApply(init, opB, 'b')
	s2, wA2 := vpSeqApply(s2, opA, 'a')
	ab := rA == wA1 && rB == wB1 && fin == s1
	ba := rA == wA2 && rB == wB2 && fin == s2
	vpAssert(ab || ba, "results-explained-by-a-sequential-order")
	vpReach("end")
}

// VerifC07_Atomic: two concurrent Incr calls (solver-chosen entry members) on one key never lose an update: the final
// value is the initial value plus both deltas and the two returned values are those of one of the two serial orders.
func VerifC07_Atomic() { vpAtomicScript(false) }

// VerifC04_MirrorConcurrent: the same two concurrent Incr calls with ReplicaCount 2: once both are acknowledged the
// backup copy equals the primary copy (write timestamps are taken on entry, so the later-stamped write may be
// applied first).
func VerifC04_MirrorConcurrent() { vpAtomicScript(true) }

func vpAtomicScript(mirror bool) {
	replicas := 1 + vpChoose("replicas", 2)
	if mirror {
		replicas = 2
	}
	cl := vpTwoMembers(replicas, 0)
	ctx := context.Background()
	entA, entB := vpChoose("entryA", 2), vpChoose("entryB", 2)
	// the callers' handles are obtained first, as an embedded client does once; the DMap may then be destroyed
	// (by anyone) and used again through the old handles - the callers still have to exclude each other
	dmA, dmB := vpDMap(cl.members[entA], "d"), vpDMap(cl.members[entB], "d")
	if !mirror && vpChoose("destroyed-in-between", 2) == 1 {
		vpAssume(vpDMap(cl.members[vpDestroyer()], "d").Destroy(ctx) == nil)
	}
	base := 0
	if vpChoose("init", 2) == 1 {
		base = 10
		vpAssume(vpDMap(cl.members[0], "d").Put(ctx, "n", 10, nil) == nil)
	}
	var gotA, gotB int
	var errA, errB error
	// a caller may enter a millisecond after the other one (write timestamps are taken on entry, before the lock)
	lateA, lateB := vpBool("lateA"), vpBool("lateB")
	vpGo(func() {
		if lateA {
			vpSleepMs(1)
		}
		gotA, errA = dmA.Incr(ctx, "n", 1)
	})
	vpGo(func() {
		if lateB {
			vpSleepMs(1)
		}
		gotB, errB = dmB.Incr(ctx, "n", 5)
	})
	vpJoin()
	vpAssert(errA == nil && errB == nil, "incr-succeeds")
	if replicas == 2 && mirror {
		vpCheckMirror(cl, "d", "n")
	}
	fin, err := vpDMap(cl.members[0], "d").Incr(ctx, "n", 0)
	vpAssert(err == nil && fin == base+6, "no-increment-is-lost")
	ab := gotA == base+1 && gotB == base+6
	ba := gotB == base+5 && gotA == base+6
	vpAssert(ab || ba, "returned-values-form-a-serial-order")
	vpReach("end")
}

// VerifC07_GetPut: two concurrent GetPut calls form a chain: one of them returns the initial value (or nothing) and
// the other returns the value written by the first.
func VerifC07_GetPut() {
	cl := vpTwoMembers(1, 0)
	ctx := context.Background()
	entA, entB := vpChoose("entryA", 2), vpChoose("entryB", 2)
	dmA, dmB := vpDMap(cl.members[entA], "d"), vpDMap(cl.members[entB], "d")
	if vpChoose("destroyed-in-between", 2) == 1 { // handles taken before a Destroy stay in use
		vpAssume(vpDMap(cl.members[vpDestroyer()], "d").Destroy(ctx) == nil)
	}
	hasInit := vpChoose("init", 2) == 1
	if hasInit {
		vpAssume(vpDMap(cl.members[0], "d").Put(ctx, "g", []byte{'i'}, nil) == nil)
	}
	old := func(dm *DMap, v byte) byte {
		e, err := dm.GetPut(ctx, "g", []byte{v})
		if err != nil {
			return '!'
		}
		if e == nil || len(e.Value()) != 1 {
			return 0
		}
		return e.Value()[0]
	}
	var oA, oB byte
	vpGo(func() { oA = old(dmA, 'a') })
	vpGo(func() { oB = old(dmB, 'b') })
	vpJoin()
	first := byte(0)
	if hasInit {
		first = 'i'
	}
	ab := oA == first && oB == 'a'
	ba := oB == first && oA == 'b'
	vpAssert(ab || ba, "getput-old-values-form-a-chain")
	vpReach("end")
}

// VerifC08_Concurrent: two clients call Lock on the same free key at the same time, through any members: at most one
// of them is given a token.
func VerifC08_Concurrent() {
	replicas := 1 + vpChoose("replicas", 2)
	cl := vpTwoMembers(replicas, 0)
	ctx := context.Background()
	entA, entB := vpChoose("entryA", 2), vpChoose("entryB", 2)
	dmA, dmB := vpDMap(cl.members[entA], "l"), vpDMap(cl.members[entB], "l")
	var errA, errB error
	vpGo(func() { _, errA = dmA.Lock(ctx, "k", 0, 0) })
	vpGo(func() { _, errB = dmB.Lock(ctx, "k", 0, 0) })
	vpJoin()
	vpAssert(!(errA == nil && errB == nil), "at-most-one-holder")
	vpAssert(errA == nil || errB == nil, "free-lock-is-acquired-by-one")
	vpReach("end")
}

// VerifC07_Mixed: two concurrent atomic operations of possibly different kinds on one key - Incr, Decr or
// IncrByFloat each, through any pair of entry members: no update is lost (the final value is the initial value plus
// both effects) and the two returned values are those of one of the two serial orders.
func VerifC07_Mixed() {
	cl := vpTwoMembers(1+vpChoose("replicas", 2), 0)
	ctx := context.Background()
	base := 0.0
	if vpChoose("init", 2) == 1 {
		base = 10
		vpAssume(vpDMap(cl.members[0], "d").Put(ctx, "n", 10, nil) == nil)
	}
	op := func(dm *DMap, kind int, d int) (float64, float64, error) {
		switch kind {
		case 0:
			v, err := dm.Incr(ctx, "n", d)
			return float64(v), float64(d), err
		case 1:
			v, err := dm.Decr(ctx, "n", d)
			return float64(v), -float64(d), err
		}
		v, err := dm.IncrByFloat(ctx, "n", float64(d))
		return v, float64(d), err
	}
	kindA, kindB := vpChoose("kindA", 3), vpChoose("kindB", 3)
	vpAssume(kindA != kindB) // equal kinds are VerifC07_Atomic's subject
	dmA, dmB := vpDMap(cl.members[vpChoose("entryA", 2)], "d"), vpDMap(cl.members[vpChoose("entryB", 2)], "d")
	var gotA, gotB, effA, effB float64
	var errA, errB error
	vpGo(func() { gotA, effA, errA = op(dmA, kindA, 1) })
	vpGo(func() { gotB, effB, errB = op(dmB, kindB, 5) })
	vpJoin()
	vpAssert(errA == nil && errB == nil, "atomic-op-succeeds")
	fin, err := vpDMap(cl.members[0], "d").IncrByFloat(ctx, "n", 0)
	vpAssert(err == nil && fin == base+effA+effB, "no-update-is-lost")
	ab := gotA == base+effA && gotB == base+effA+effB
	ba := gotB == base+effB && gotA == base+effA+effB
	vpAssert(ab || ba, "returned-values-form-a-serial-order")
	vpReach("end")
}

// the member through which the Destroy between handle creation and use is issued: member 1 in quick, any in thorough
func vpDestroyer() int {
	if vpBound("anydestroyer") == 1 {
		return vpChoose("destroyer", 2)
	}
	return 1
}

// VerifC04_MirrorRace: two clients mutate the same key at the same time (Put / Put NX / Put XX / Delete of
// solver-chosen kind, through either member) with ReplicaCount 2. Whatever the interleaving of lock sections and
// replication RPCs, once both are acknowledged the backup copy equals the primary copy: the order in which the
// backup applies the two operations is the order in which the primary applied them.
func VerifC04_MirrorRace() {
	cl := vpTwoMembers(2, 0)
	// WriteQuorum 2: an acknowledged write is one that both copies took (C05) - so the value the primary ends with,
	// which is an acknowledged one, must be on the backup too
	for _, m := range cl.members {
		m.svc.config.WriteQuorum = 2
	}
	if vpChoose("init", 2) == 1 {
		vpAssume(vpDMap(cl.members[0], "d").Put(context.Background(), "k", []byte{'i'}, nil) == nil)
	}
	ops := [4]int{0, 1, 2, 4}
	opA, opB := ops[vpChoose("opA", 4)], ops[vpChoose("opB", 4)]
	entA, entB := vpChoose("entryA", 2), vpChoose("entryB", 2)
	dmA, dmB := vpDMap(cl.members[entA], "d"), vpDMap(cl.members[entB], "d")
	lateA, lateB := vpBool("lateA"), vpBool("lateB")
	vpGo(func() {
		if lateA {
			vpSleepMs(1)
		}
		vpDoOp(dmA, opA, 'a')
	})
	vpGo(func() {
		if lateB {
			vpSleepMs(1)
		}
		vpDoOp(dmB, opB, 'b')
	})
	vpJoin()
	vpCheckMirror(cl, "d", "k")
	vpReach("end")
}
