//go:build verif

package dmap

import (
	"context"
	"errors"

	"github.com/olric-data/olric/internal/cluster/partitions"
)

// VerifC06_Read: copies of one key with arbitrary (solver-chosen, possibly equal) timestamps are spread over the
// primary owner, one or two previous owners (a member of its own, the first backup owner - which then holds two
// copies -, or two members of their own) and
// the backup owners; any of the remote holders may be unreachable; ReadQuorum is
// symbolic. A read through the owner (or forwarded from a bystander) returns a value only if at least ReadQuorum
// copies were obtained, fails with the read-quorum error when some but too few copies were obtained, returns the
// copy with the newest timestamp among those obtained, and with read-repair on brings the owner's own copy and
// every reachable stale backup copy up to that version.
func VerifC06_Read() {
	r := 2 + vpChoose("replicas", 2) // 2 or 3 copies: primary + (r-1) backups
	rq := vpRange("RQ", 1, r)
	repair := vpBool("readrepair")
	// previous primary owner: none, a member of its own, or member 1 - which is also the first backup owner and so
	// holds two copies of the key (a primary-fragment one and a backup-fragment one)
	// (3: two previous owners, members r and r+1, the older one listed first)
	prevKind := vpChoose("prevowner", 4)
	withPrev := prevKind != 0
	prevMember := r
	if prevKind == 2 {
		prevMember = 1
	}
	n := r + 2 // members: 0 primary, 1..r-1 backups, r previous owner, r+1 bystander
	cl := vpNewCluster(vpClusterConfig{members: n, replicaCount: r, writeQuorum: 1, readQuorum: rq, partitions: 1, readRepair: repair})
	primaryOwners := []int{0}
	if withPrev {
		primaryOwners = []int{prevMember, 0}
	}
	if prevKind == 3 {
		primaryOwners = []int{r + 1, r, 0}
	}
	cl.vpSetOwners(0, primaryOwners, vpIntList(1, r))

	type holder struct {
		m       int
		kind    partitions.Kind
		present bool
		ts      int64
		down    bool
	}
	var hs []*holder
	hs = append(hs, &holder{m: 0, kind: partitions.PRIMARY})
	for i := 1; i < r; i++ {
		hs = append(hs, &holder{m: i, kind: partitions.BACKUP})
	}
	if withPrev {
		hs = append(hs, &holder{m: prevMember, kind: partitions.PRIMARY})
	}
	lastHolder := r
	if prevKind == 3 {
		hs = append(hs, &holder{m: r + 1, kind: partitions.PRIMARY})
		lastHolder = r + 1
	}
	for m := 1; m <= lastHolder; m++ {
		cl.members[m].down = vpBool("down")
	}
	for i, h := range hs {
		h.present = vpBool("present")
		if h.present {
			h.ts = int64(vpRange("ts", 1, 1000))
			vpPlace(cl.members[h.m], "d", "k", []byte{byte('A' + i)}, 0, h.ts, h.kind)
		}
		h.down = cl.members[h.m].down
	}
	entry := 0
	if vpBool("viabystander") {
		entry = r + 1
		vpAssume(!cl.members[entry].down) // the member the client talks to is up
	}
	e, err := vpDMap(cl.members[entry], "d").Get(context.Background(), "k")

	obtained := 0
	var newest int64
	for _, h := range hs {
		if h.present && !h.down {
			obtained++
			if h.ts > newest {
				newest = h.ts
			}
		}
	}
	switch {
	case err == nil:
		vpAssert(obtained >= rq, "value-implies-read-quorum-copies")
		vpAssert(e.Timestamp() == newest, "read-returns-newest-obtained-copy")
		ok := false
		for i, h := range hs {
			if h.present && !h.down && h.ts == newest && len(e.Value()) == 1 && e.Value()[0] == byte('A'+i) {
				ok = true
			}
		}
		vpAssert(ok, "read-returns-the-value-of-a-newest-copy")
	case errors.Is(err, ErrReadQuorum):
		vpAssert(obtained < rq, "quorum-met-implies-value")
	case errors.Is(err, ErrKeyNotFound):
		vpAssert(obtained == 0, "existing-reachable-key-is-not-reported-missing")
	default:
		vpAssert(false, "unexpected-error-kind")
	}
	if obtained > 0 && obtained < rq {
		vpAssert(errors.Is(err, ErrReadQuorum), "too-few-copies-is-read-quorum-error")
	}
	if obtained >= rq && obtained > 0 {
		vpAssert(err == nil, "enough-copies-returns-value")
	}
	if err == nil && repair {
		// the owner's own copy and every reachable backup copy that took part now carry the winner
		own, ok := vpCopy(cl.members[0], "d", "k", partitions.PRIMARY)
		vpAssert(ok && own.Timestamp() == newest, "read-repair-updates-owner-copy")
		for _, h := range hs {
			if h.kind == partitions.BACKUP && h.present && !h.down {
				c, ok := vpCopy(cl.members[h.m], "d", "k", partitions.BACKUP)
				vpAssert(ok && c.Timestamp() == newest, "read-repair-updates-stale-backup")
			}
		}
	}
	vpReach("end")
}

// VerifC06_Merge: merging fragments (the hand-over path) keeps, per key, the copy with the newest timestamp,
// whatever the arrival order and however often a fragment is delivered again.
func VerifC06_Merge() {
	cl := vpNewCluster(vpClusterConfig{members: 1, replicaCount: 1, writeQuorum: 1, readQuorum: 1, partitions: 1})
	cl.vpSetOwners(0, []int{0}, nil)
	dm := vpDMap(cl.members[0], "d")
	part := dm.getPartitionByHKey(partitions.HKey("d", "k"), partitions.PRIMARY)
	f, err := dm.loadOrCreateFragment(part)
	if err != nil {
		panic(err)
	}
	hkey := partitions.HKey("d", "k")
	type ver struct {
		ts  int64
		tag byte
	}
	vs := [3]ver{{int64(vpRange("ts", 1, 100)), 'A'}, {int64(vpRange("ts", 1, 100)), 'B'}, {int64(vpRange("ts", 1, 100)), 'C'}}
	nDeliveries := 2 + vpChoose("deliveries", 3) // 2..4 deliveries drawn from the 3 versions, in any order, repeats allowed
	var maxTs int64
	for i := 0; i < nDeliveries; i++ {
		v := vs[vpChoose("which", 3)]
		e := f.storage.NewEntry()
		e.SetKey("k")
		e.SetValue([]byte{v.tag})
		e.SetTimestamp(v.ts)
		merr := dm.fragmentMergeFunction(f, hkey, e)
		vpAssert(merr == nil, "merge-error")
		if v.ts > maxTs {
			maxTs = v.ts
		}
		cur, gerr := f.storage.Get(hkey)
		vpAssert(gerr == nil, "merged-key-present")
		if gerr == nil {
			vpAssert(cur.Timestamp() == maxTs, "merge-keeps-newest-timestamp")
		}
	}
	vpReach("end")
}

// VerifC09_StaleCopies: copies of one key on the primary owner, the backup owner and optionally a previous owner
// carry solver-chosen distinct timestamps, and each either no expiry or a deadline that has already passed. A read
// (read-repair on or off, through the owner or the other member) is decided by the newest copy alone: if that copy
// has expired the key reads not-found - an older copy without expiry must not come back, now or on the next read -
// and otherwise the newest copy's value is returned.
func VerifC09_StaleCopies() {
	repair := vpBool("readrepair")
	withPrev := vpBool("prevowner")
	cl := vpNewCluster(vpClusterConfig{members: 3, replicaCount: 2, writeQuorum: 1, readQuorum: 1, partitions: 1, readRepair: repair})
	po := []int{0}
	if withPrev {
		po = []int{2, 0}
	}
	cl.vpSetOwners(0, po, []int{1})
	type copyT struct {
		m       int
		kind    partitions.Kind
		present bool
		expired bool
		ts      int64
	}
	cs := []*copyT{{m: 0, kind: partitions.PRIMARY}, {m: 1, kind: partitions.BACKUP}}
	if withPrev {
		cs = append(cs, &copyT{m: 2, kind: partitions.PRIMARY})
	}
	now := vpNowMs()
	var newest *copyT
	for i, c := range cs {
		c.present = vpBool("present")
		if !c.present {
			continue
		}
		c.ts = int64(vpRange("ts", 1, 1000))
		for _, o := range cs[:i] {
			vpAssume(!o.present || o.ts != c.ts)
		}
		c.expired = vpBool("expired")
		ttl := int64(0)
		if c.expired {
			ttl = now - 1000
		}
		vpPlace(cl.members[c.m], "d", "k", []byte{byte('A' + i)}, ttl, c.ts, c.kind)
		if newest == nil || c.ts > newest.ts {
			newest = c
		}
	}
	vpAssume(newest != nil)
	entry := vpChoose("entry", 2)
	for round := 0; round < 2; round++ {
		e, err := vpDMap(cl.members[entry], "d").Get(context.Background(), "k")
		if newest.expired {
			vpAssert(errors.Is(err, ErrKeyNotFound), "expired-newest-copy-hides-older-copies")
		} else {
			vpAssert(err == nil, "unexpired-newest-copy-is-returned")
			if err == nil {
				vpAssert(e.Timestamp() == newest.ts, "read-returns-the-newest-copy")
			}
		}
	}
	vpReach("end")
}
