//go:build verif

package dmap

import (
	"context"
	"errors"

	"github.com/olric-data/olric/internal/cluster/partitions"
)

var vpMapNames = [3]string{"a", "ab", "b"}
var vpMapKeys = [3]string{"c", "bc", "b"}

func vpHasFragment(m *vpMember, name string, kind partitions.Kind, count uint64) bool {
	ps := m.svc.primary
	if kind == partitions.BACKUP {
		ps = m.svc.backup
	}
	for id := uint64(0); id < count; id++ {
		if _, ok := ps.PartitionByID(id).Map().Load("dmap." + name); ok {
			return true
		}
	}
	return false
}

// VerifC19_Isolation: two DMaps whose names and keys are drawn so that prefixes and concatenation collisions occur
// ("a"+"bc" vs "ab"+"c"). Any script on DMap A (Put, Delete, Incr, Lock, Destroy, Scan) through any member leaves
// every entry of DMap B on primary and backup unchanged; Destroy(A) removes every entry and fragment of A on every
// member (primary and backup) and A stays usable afterwards.
func VerifC19_Isolation() {
	steps := vpBound("steps")
	cl := vpTwoMembers(2, 0)
	ctx := context.Background()
	ai := vpChoose("nameA", len(vpMapNames))
	bi := vpChoose("nameB", len(vpMapNames))
	vpAssume(ai != bi)
	A, B := vpMapNames[ai], vpMapNames[bi]
	// B holds all three keys
	for i, k := range vpMapKeys {
		err := vpDMap(cl.members[0], B).Put(ctx, k, []byte{byte('X' + i)}, nil)
		vpAssume(err == nil)
	}
	checkB := func() {
		for i, k := range vpMapKeys {
			for m := 0; m < 2; m++ {
				e, err := vpDMap(cl.members[m], B).Get(ctx, k)
				vpAssert(err == nil && len(e.Value()) == 1 && e.Value()[0] == byte('X'+i), "other-dmap-entry-unchanged")
			}
			p, pok := vpCopy(cl.members[0], B, k, partitions.PRIMARY)
			b, bok := vpCopy(cl.members[1], B, k, partitions.BACKUP)
			vpAssert(pok && bok && p.Value()[0] == byte('X'+i) && b.Value()[0] == byte('X'+i), "other-dmap-copies-unchanged")
		}
	}
	destroyed := false
	for i := 0; i < steps; i++ {
		entry := vpChoose("entry", 2)
		dm := vpDMap(cl.members[entry], A)
		k := vpMapKeys[vpChoose("key", len(vpMapKeys))]
		switch vpChoose("op", 6) {
		case 0:
			vpAssert(dm.Put(ctx, k, []byte{'v'}, nil) == nil, "put-on-a")
			destroyed = false
		case 1:
			_, err := dm.Delete(ctx, k)
			vpAssert(err == nil, "delete-on-a")
		case 2:
			_, err := dm.Incr(ctx, k, 2)
			vpAssert(err == nil, "incr-on-a")
			destroyed = false
		case 3:
			_, err := dm.Lock(ctx, k, 0, 0)
			vpAssert(err == nil || errors.Is(err, ErrLockNotAcquired), "lock-on-a")
			if err == nil {
				destroyed = false
			}
		case 4:
			err := dm.Destroy(ctx)
			vpAssert(err == nil, "destroy-succeeds")
			destroyed = true
			for m := 0; m < 2; m++ {
				for _, kk := range vpMapKeys {
					_, gerr := vpDMap(cl.members[m], A).Get(ctx, kk)
					vpAssert(errors.Is(gerr, ErrKeyNotFound), "destroyed-dmap-key-not-found")
				}
				vpAssert(!vpHasFragment(cl.members[m], A, partitions.PRIMARY, 1), "destroy-removes-primary-fragment")
				vpAssert(!vpHasFragment(cl.members[m], A, partitions.BACKUP, 1), "destroy-removes-backup-fragment")
			}
		case 5:
			keys, _, err := dm.Scan(0, 0, &ScanConfig{Count: 10})
			vpAssert(err == nil, "scan-on-a")
			if destroyed {
				vpAssert(len(keys) == 0, "scan-of-destroyed-dmap-is-empty")
			}
		}
		checkB()
	}
	vpReach("end")
}

// VerifC19_DestroyReuse: DMap handles are obtained once and reused, as embedded clients do. Rounds of "write some
// keys through a handle, Destroy through a handle (either member), check" - Destroy must wipe the DMap every time, not
// only the first time, for ReplicaCount 1 and 2, and the DMap stays usable afterwards.
func VerifC19_DestroyReuse() {
	rounds := vpBound("rounds")
	replicas := 1 + vpChoose("replicas", 2)
	cl := vpTwoMembers(replicas, 0)
	ctx := context.Background()
	h := [2]*DMap{vpDMap(cl.members[0], "a"), vpDMap(cl.members[1], "a")}
	for r := 0; r < rounds; r++ {
		w := vpChoose("writer", 2)
		k := vpMapKeys[vpChoose("key", len(vpMapKeys))]
		vpAssert(h[w].Put(ctx, k, []byte{byte('0' + r)}, nil) == nil, "put-through-reused-handle")
		d := vpChoose("destroyer", 2)
		vpAssert(h[d].Destroy(ctx) == nil, "destroy-succeeds")
		// reads through the non-owner pass through a command handler on the owner (which may re-register the DMap
		// there), reads through the owner do not: whether the non-owner reads between rounds is part of the script
		remoteReads := r == rounds-1 || vpChoose("remotereads", 2) == 1
		for m := 0; m < 2; m++ {
			for _, kk := range vpMapKeys {
				if m == 1 && !remoteReads {
					break
				}
				_, gerr := h[m].Get(ctx, kk)
				vpAssert(errors.Is(gerr, ErrKeyNotFound), "destroyed-dmap-key-not-found")
			}
			vpAssert(!vpHasFragment(cl.members[m], "a", partitions.PRIMARY, 1), "destroy-removes-primary-fragment")
			vpAssert(!vpHasFragment(cl.members[m], "a", partitions.BACKUP, 1), "destroy-removes-backup-fragment")
		}
	}
	vpReach("end")
}

// VerifC19_DestroyLeftovers: fragments of the destroyed DMap that are not where the routing table says copies live -
// a backup fragment on the member that (by now) is the partition's primary owner, as a departed primary leaves
// behind; a primary fragment on the backup owner, as an unfinished hand-over leaves behind - are wiped by Destroy
// like every other copy, through either member, for ReplicaCount 2; fragments of another DMap in the same places
// survive.
func VerifC19_DestroyLeftovers() {
	cl := vpTwoMembers(2, 0)
	ctx := context.Background()
	vpAssume(vpDMap(cl.members[0], "a").Put(ctx, "c", []byte{1}, nil) == nil)
	vpAssume(vpDMap(cl.members[0], "ab").Put(ctx, "c", []byte{2}, nil) == nil)
	type spot struct {
		m    int
		kind partitions.Kind
	}
	spots := [2]spot{{0, partitions.BACKUP}, {1, partitions.PRIMARY}}
	for _, sp := range spots {
		if vpChoose("leftover", 2) == 1 {
			vpPlace(cl.members[sp.m], "a", "bc", []byte{3}, 0, 1, sp.kind)
			vpPlace(cl.members[sp.m], "ab", "bc", []byte{4}, 0, 1, sp.kind)
		}
	}
	vpAssert(vpDMap(cl.members[vpChoose("destroyer", 2)], "a").Destroy(ctx) == nil, "destroy-succeeds")
	for m := 0; m < 2; m++ {
		vpAssert(!vpHasFragment(cl.members[m], "a", partitions.PRIMARY, 1), "destroy-removes-primary-fragment")
		vpAssert(!vpHasFragment(cl.members[m], "a", partitions.BACKUP, 1), "destroy-removes-backup-fragment")
	}
	vpAssert(vpHasFragment(cl.members[0], "ab", partitions.PRIMARY, 1) && vpHasFragment(cl.members[1], "ab", partitions.BACKUP, 1), "other-dmap-keeps-its-copies")
	_, gerr := vpDMap(cl.members[1], "ab").Get(ctx, "c")
	vpAssert(gerr == nil, "other-dmap-still-readable")
	vpReach("end")
}

// VerifC19_DestroyUnreachable: one member cannot be reached (its port is closed, it is still a member) while Destroy
// runs through the other one. A Destroy that reports success has removed every copy everywhere: once the member
// answers again nothing of the DMap is left on it and every key reads not-found through either member. A Destroy that
// could not reach everybody says so (an error); repeated when everybody answers, it succeeds and wipes.
func VerifC19_DestroyUnreachable() {
	replicas := 1 + vpChoose("replicas", 2)
	cl := vpTwoMembers(replicas, 0)
	ctx := context.Background()
	vpAssume(vpDMap(cl.members[0], "a").Put(ctx, "c", []byte{1}, nil) == nil)
	if vpChoose("leftover-on-1", 2) == 1 { // member 1 also holds a primary fragment of its own (left-over / earlier owner)
		vpPlace(cl.members[1], "a", "bc", []byte{3}, 0, 1, partitions.PRIMARY)
	}
	down := vpChoose("down", 2)
	cl.members[down].down = true
	err := vpDMap(cl.members[1-down], "a").Destroy(ctx)
	cl.members[down].down = false
	if err != nil {
		vpAssert(vpDMap(cl.members[vpChoose("second", 2)], "a").Destroy(ctx) == nil, "destroy-succeeds-when-everybody-answers")
	}
	for m := 0; m < 2; m++ {
		vpAssert(!vpHasFragment(cl.members[m], "a", partitions.PRIMARY, 1), "successful-destroy-left-no-primary-fragment")
		vpAssert(!vpHasFragment(cl.members[m], "a", partitions.BACKUP, 1), "successful-destroy-left-no-backup-fragment")
		_, gerr := vpDMap(cl.members[m], "a").Get(ctx, "c")
		vpAssert(errors.Is(gerr, ErrKeyNotFound), "destroyed-key-reads-not-found")
	}
	vpReach("end")
}
