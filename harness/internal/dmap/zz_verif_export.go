//go:build verif

package dmap

import (
	"context"

	"github.com/olric-data/olric/config"
	"github.com/olric-data/olric/internal/cluster/routingtable"
	"github.com/olric-data/olric/pkg/flog"

	"github.com/olric-data/olric/internal/cluster/partitions"
	"github.com/redis/go-redis/v9"
)

// Exported view of the loopback cluster for harnesses of the root package (cluster client, pipeline).

type VerifCluster struct{ cl *vpClusterT }

// VerifNewCluster: members with one partition each owned by member (partition id mod members); ReplicaCount 1.
func VerifNewCluster(members int, parts uint64) *VerifCluster {
	cl := vpNewCluster(vpClusterConfig{members: members, replicaCount: 1, writeQuorum: 1, readQuorum: 1, partitions: parts})
	for p := uint64(0); p < parts; p++ {
		cl.vpSetOwners(p, []int{int(p) % members}, nil)
	}
	return &VerifCluster{cl: cl}
}

func (v *VerifCluster) Addr(i int) string { return v.cl.members[i].member.Name }

func (v *VerifCluster) OwnerOfPartition(p uint64) string {
	return v.cl.members[int(p)%len(v.cl.members)].member.Name
}

func (v *VerifCluster) Process(addr string, ctx context.Context, cmd redis.Cmder) error {
	return vpProcess(addr, ctx, cmd)
}

// DMap returns the embedded DMap handle of member i.
func (v *VerifCluster) DMap(i int, name string) *DMap { return vpDMap(v.cl.members[i], name) }

// Stored reads the primary copy of a key straight from its owner's fragment.
func (v *VerifCluster) Stored(name, key string) (val []byte, ttl int64, ok bool) {
	hkey := partitions.HKey(name, key)
	owner := v.cl.members[int(hkey%v.cl.parts)%len(v.cl.members)]
	e, found := vpCopy(owner, name, key, partitions.PRIMARY)
	if !found {
		return nil, 0, false
	}
	return vpDup(e.Value()), e.TTL(), true
}

func (v *VerifCluster) KeyForPartition(name string, part uint64, skip int) string {
	return vpKeyForPartition(name, part, v.cl.parts, skip)
}

// VerifNewClusterR: as VerifNewCluster with a replica count; with prev, every partition also lists the other member
// as a previous primary owner (hand-over in progress); with replicas == 2 the other member is the backup owner.
func VerifNewClusterR(parts uint64, replicas int, prev bool) *VerifCluster {
	cl := vpNewCluster(vpClusterConfig{members: 2, replicaCount: replicas, writeQuorum: 1, readQuorum: 1, partitions: parts})
	for p := uint64(0); p < parts; p++ {
		owner := int(p) % 2
		other := 1 - owner
		po := []int{owner}
		if prev {
			po = []int{other, owner}
		}
		var bo []int
		if replicas == 2 {
			bo = []int{other}
		}
		cl.vpSetOwners(p, po, bo)
	}
	return &VerifCluster{cl: cl}
}

// PlacePrimary writes a key straight into member i's primary fragment (data a previous owner still holds).
func (v *VerifCluster) PlacePrimary(i int, name, key string, val []byte) {
	vpPlace(v.cl.members[i], name, key, val, 0, 1, partitions.PRIMARY)
}

func (v *VerifCluster) PrimaryOwners(p uint64) []string {
	var out []string
	for _, m := range v.cl.members[0].svc.primary.PartitionByID(p).Owners() {
		out = append(out, m.Name)
	}
	return out
}

func (v *VerifCluster) BackupOwners(p uint64) []string {
	var out []string
	for _, m := range v.cl.members[0].svc.backup.PartitionByID(p).Owners() {
		out = append(out, m.Name)
	}
	return out
}

// RT returns member i's routing table (for the embedded client's "is this owner me" test).
func (v *VerifCluster) RT(i int) *routingtable.RoutingTable { return v.cl.members[i].svc.rt }

// VerifEntryCount: number of entries in the primary fragments of a DMap on this member (-1 if the DMap does not exist).
func (s *Service) VerifEntryCount(name string) int {
	if _, err := s.getDMap(name); err != nil {
		return -1
	}
	n := 0
	for id := uint64(0); id < s.config.PartitionCount; id++ {
		if f, ok := s.primary.PartitionByID(id).Map().Load("dmap." + name); ok {
			n += f.(*fragment).storage.Stats().Length
		}
	}
	return n
}

// Views of a member for the balancer harness.
func (v *VerifCluster) Primary(i int) *partitions.Partitions { return v.cl.members[i].svc.primary }
func (v *VerifCluster) Backup(i int) *partitions.Partitions  { return v.cl.members[i].svc.backup }
func (v *VerifCluster) Config(i int) *config.Config          { return v.cl.members[i].svc.config }
func (v *VerifCluster) Log(i int) *flog.Logger               { return v.cl.members[i].svc.log }

// StoredOn reads member i's own primary copy of a key.
func (v *VerifCluster) StoredOn(i int, name, key string) ([]byte, bool) {
	e, ok := vpCopy(v.cl.members[i], name, key, partitions.PRIMARY)
	if !ok {
		return nil, false
	}
	return vpDup(e.Value()), true
}

// VerifNewHandOver: two members, one partition handed over from member 0 (previous owner, still holding the data)
// to member 1; ReplicaCount 1.
func VerifNewHandOver() *VerifCluster {
	cl := vpNewCluster(vpClusterConfig{members: 2, replicaCount: 1, writeQuorum: 1, readQuorum: 1, partitions: 1})
	cl.vpSetOwners(0, []int{0, 1}, nil)
	return &VerifCluster{cl: cl}
}

// VerifNewBackupHandOver: four members, ReplicaCount 3, one partition: member 0 primary owner, members 1 and 2 the
// current backup owners, member 3 a former backup owner that still holds a backup fragment.
func VerifNewBackupHandOver() *VerifCluster {
	cl := vpNewCluster(vpClusterConfig{members: 4, replicaCount: 3, writeQuorum: 1, readQuorum: 1, partitions: 1})
	cl.vpSetOwners(0, []int{0}, []int{1, 2})
	return &VerifCluster{cl: cl}
}

// SetDown makes member i unreachable (every RPC to it fails) or reachable again.
func (v *VerifCluster) SetDown(i int, down bool) { v.cl.members[i].down = down }

// PlaceBackup writes a key straight into member i's backup fragment; BackupOn reads member i's own backup copy.
func (v *VerifCluster) PlaceBackup(i int, name, key string, val []byte) {
	vpPlace(v.cl.members[i], name, key, val, 0, 1, partitions.BACKUP)
}
func (v *VerifCluster) BackupOn(i int, name, key string) ([]byte, bool) {
	e, ok := vpCopy(v.cl.members[i], name, key, partitions.BACKUP)
	if !ok {
		return nil, false
	}
	return vpDup(e.Value()), true
}

// Delivered lists the RPCs delivered so far, in order, as "<target member>:<command name>".
func (v *VerifCluster) Delivered() []string { return v.cl.log }
