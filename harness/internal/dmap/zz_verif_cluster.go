//go:build verif

package dmap

// Loopback cluster for the dmap harnesses: N Service values built by hand (no sockets, no memberlist), whose
// inter-member RPCs - every (*redis.Client).Process call - are delivered synchronously to the target member's
// real command handler through a recording redcon.Conn. Natively the routing is installed as a go-redis hook;
// in the symbolic engine Process is intercepted and routed to vpProcess directly. The same code runs in both.

import (
	"context"
	"errors"
	"io"
	"log"
	"net"
	"strconv"
	"time"

	"github.com/olric-data/olric/config"
	"github.com/olric-data/olric/internal/cluster/partitions"
	"github.com/olric-data/olric/internal/cluster/routingtable"
	"github.com/olric-data/olric/internal/discovery"
	"github.com/olric-data/olric/internal/kvstore"
	"github.com/olric-data/olric/internal/locker"
	"github.com/olric-data/olric/internal/protocol"
	"github.com/olric-data/olric/internal/server"
	"github.com/olric-data/olric/pkg/flog"
	"github.com/redis/go-redis/v9"
	"github.com/tidwall/redcon"
)

type vpMember struct {
	idx    int
	member discovery.Member
	svc    *Service
	down   bool // unreachable: every RPC to it fails with a connection error
	rpcs   []string
}

type vpClusterT struct {
	members []*vpMember
	parts   uint64
	log     []string // command names delivered, in order: "<target>:<name>"
	drop    int      // when > 0: the drop-th delivered RPC from now loses its reply (applied, but the caller sees an error)
}

var vpCluster *vpClusterT

// vpHasher is a small deterministic hash so that keys map to hkeys identically in the engine and natively.
type vpHasher struct{}

func (vpHasher) Sum64(b []byte) uint64 {
	h := uint64(1469598103934665603)
	for _, c := range b {
		h = (h ^ uint64(c)) * 1099511628211
	}
	return h
}

type vpClusterConfig struct {
	members      int
	replicaCount int
	writeQuorum  int
	readQuorum   int
	partitions   uint64
	tableSize    uint64
	readRepair   bool
	dmaps        *config.DMaps
}

func vpMemberName(i int) string { return "m" + strconv.Itoa(i) + ":3320" }

func vpNewCluster(cc vpClusterConfig) *vpClusterT {
	partitions.SetHashFunc(vpHasher{})
	registerErrors()
	cl := &vpClusterT{parts: cc.partitions}
	for i := 0; i < cc.members; i++ {
		name := vpMemberName(i)
		m := discovery.Member{Name: name, NameHash: uint64(100 + i), ID: uint64(1000 + i), Birthdate: int64(1 + i)}
		dm := cc.dmaps
		if dm == nil {
			dm = &config.DMaps{}
		}
		dmc := *dm
		ts := cc.tableSize
		if ts == 0 {
			ts = 1 << 16
		}
		sc := kvstore.DefaultConfig()
		sc.Add("tableSize", ts)
		eng, err := kvstore.New(sc)
		if err != nil {
			panic(err)
		}
		dmc.Engine = &config.Engine{Name: "kvstore", Implementation: eng, Config: sc.ToMap()}
		c := &config.Config{
			PartitionCount:    cc.partitions,
			ReplicaCount:      cc.replicaCount,
			ReadQuorum:        cc.readQuorum,
			WriteQuorum:       cc.writeQuorum,
			MemberCountQuorum: 1,
			ReadRepair:        cc.readRepair,
			ReplicationMode:   config.SyncReplicationMode,
			BootstrapTimeout:  time.Second,
			DMaps:             &dmc,
			Logger:            log.New(io.Discard, "", 0),
		}
		primary := partitions.New(cc.partitions, partitions.PRIMARY)
		backup := partitions.New(cc.partitions, partitions.BACKUP)
		rt := routingtable.VerifNew(m, c, primary, backup, int32(cc.members), 0)
		ctx, cancel := context.WithCancel(context.Background())
		s := &Service{
			config:  c,
			client:  server.NewClient(nil),
			log:     flog.New(c.Logger),
			rt:      rt,
			primary: primary,
			backup:  backup,
			locker:  locker.New(),
			storage: &storageMap{},
			dmaps:   make(map[string]*DMap),
			ctx:     ctx,
			cancel:  cancel,
		}
		cl.members = append(cl.members, &vpMember{idx: i, member: m, svc: s})
	}
	// every member can reach every member (including itself) through the loopback
	for _, a := range cl.members {
		for _, b := range cl.members {
			a.svc.rt.VerifAddMember(b.member)
			rc := a.svc.client.Get(b.member.Name)
			rc.AddHook(vpHook{addr: b.member.Name})
		}
	}
	vpCluster = cl
	return cl
}

// vpSetOwners installs the same owners lists for partition id on every member (the routing table as pushed
// by the coordinator). The last element of primary is the current owner.
func (cl *vpClusterT) vpSetOwners(partID uint64, primary []int, backup []int) {
	for _, m := range cl.members {
		var po, bo []discovery.Member
		for _, i := range primary {
			po = append(po, cl.members[i].member)
		}
		for _, i := range backup {
			bo = append(bo, cl.members[i].member)
		}
		m.svc.primary.PartitionByID(partID).SetOwners(po)
		m.svc.backup.PartitionByID(partID).SetOwners(bo)
	}
	for _, m := range cl.members {
		owned := uint64(0)
		for id := uint64(0); id < cl.parts; id++ {
			ow := m.svc.primary.PartitionByID(id).Owners()
			if len(ow) > 0 && ow[len(ow)-1].CompareByID(m.member) {
				owned++
			}
		}
		m.svc.rt.VerifSetOwned(owned)
	}
}

func (cl *vpClusterT) byAddr(addr string) *vpMember {
	for _, m := range cl.members {
		if m.member.Name == addr {
			return m
		}
	}
	return nil
}

// ---------------------------------------------------------------- go-redis hook (native routing)

type vpHook struct{ addr string }

func (h vpHook) DialHook(next redis.DialHook) redis.DialHook { return next }
func (h vpHook) ProcessHook(next redis.ProcessHook) redis.ProcessHook {
	return func(ctx context.Context, cmd redis.Cmder) error { return vpProcess(h.addr, ctx, cmd) }
}
func (h vpHook) ProcessPipelineHook(next redis.ProcessPipelineHook) redis.ProcessPipelineHook {
	return func(ctx context.Context, cmds []redis.Cmder) error {
		var first error
		for _, c := range cmds {
			err := vpProcess(h.addr, ctx, c)
			c.SetErr(err)
			if err != nil && first == nil {
				first = err
			}
		}
		return first
	}
}

// ---------------------------------------------------------------- recording connection

type vpReply struct {
	kind string // err | str | int | bulk | null | array
	s    string
	n    int64
	b    []byte
}

type vpRConn struct {
	items []vpReply
}

func (c *vpRConn) RemoteAddr() string     { return "vp" }
func (c *vpRConn) Close() error           { return nil }
func (c *vpRConn) WriteError(msg string)  { c.items = append(c.items, vpReply{kind: "err", s: msg}) }
func (c *vpRConn) WriteString(str string) { c.items = append(c.items, vpReply{kind: "str", s: str}) }
func (c *vpRConn) WriteBulk(bulk []byte) {
	c.items = append(c.items, vpReply{kind: "bulk", b: vpDup(bulk)})
}
func (c *vpRConn) WriteBulkString(bulk string) {
	c.items = append(c.items, vpReply{kind: "bulk", b: []byte(bulk)})
}
func (c *vpRConn) WriteInt(num int)     { c.items = append(c.items, vpReply{kind: "int", n: int64(num)}) }
func (c *vpRConn) WriteInt64(num int64) { c.items = append(c.items, vpReply{kind: "int", n: num}) }
func (c *vpRConn) WriteUint64(num uint64) {
	c.items = append(c.items, vpReply{kind: "int", n: int64(num)})
}
func (c *vpRConn) WriteArray(count int) {
	c.items = append(c.items, vpReply{kind: "array", n: int64(count)})
}
func (c *vpRConn) WriteNull()                     { c.items = append(c.items, vpReply{kind: "null"}) }
func (c *vpRConn) WriteRaw(data []byte)           {}
func (c *vpRConn) WriteAny(any interface{})       {}
func (c *vpRConn) Context() interface{}           { return nil }
func (c *vpRConn) SetContext(v interface{})       {}
func (c *vpRConn) SetReadBuffer(bytes int)        {}
func (c *vpRConn) Detach() redcon.DetachedConn    { return nil }
func (c *vpRConn) ReadPipeline() []redcon.Command { return nil }
func (c *vpRConn) PeekPipeline() []redcon.Command { return nil }
func (c *vpRConn) NetConn() net.Conn              { return nil }

func vpDup(b []byte) []byte {
	c := make([]byte, len(b))
	copy(c, b)
	return c
}

// vpWire renders command arguments the way go-redis' proto.Writer.WriteArg does.
func vpWire(args []interface{}) [][]byte {
	out := make([][]byte, len(args))
	for i, a := range args {
		switch v := a.(type) {
		case nil:
			out[i] = []byte{}
		case string:
			out[i] = []byte(v)
		case []byte:
			out[i] = vpDup(v)
		case int:
			out[i] = strconv.AppendInt(nil, int64(v), 10)
		case int32:
			out[i] = strconv.AppendInt(nil, int64(v), 10)
		case int64:
			out[i] = strconv.AppendInt(nil, v, 10)
		case uint64:
			out[i] = strconv.AppendUint(nil, v, 10)
		case uint32:
			out[i] = strconv.AppendUint(nil, uint64(v), 10)
		case float64:
			out[i] = strconv.AppendFloat(nil, v, 'f', -1, 64)
		case bool:
			if v {
				out[i] = []byte("1")
			} else {
				out[i] = []byte("0")
			}
		case time.Duration:
			out[i] = strconv.AppendInt(nil, v.Nanoseconds(), 10)
		default:
			panic("vpWire: unsupported argument type")
		}
	}
	return out
}

// what a caller sees when the target member's port is closed: a transport-level error (a net.Error), not a reply
var errVpConnRefused error = &net.OpError{Op: "dial", Net: "tcp", Err: errors.New("connect: connection refused")}

// vpProcess delivers one command to the member listening on addr.
func vpProcess(addr string, ctx context.Context, cmd redis.Cmder) error {
	cl := vpCluster
	m := cl.byAddr(addr)
	if m == nil || m.down {
		return errVpConnRefused
	}
	args := vpWire(cmd.Args())
	name := cmd.Name()
	cl.log = append(cl.log, addr+":"+name)
	m.rpcs = append(m.rpcs, name)
	conn := &vpRConn{}
	rcmd := redcon.Command{Args: args}
	s := m.svc
	switch name {
	case protocol.DMap.Put:
		s.putCommandHandler(conn, rcmd)
	case protocol.DMap.PutEntry:
		s.putEntryCommandHandler(conn, rcmd)
	case protocol.DMap.Get:
		s.getCommandHandler(conn, rcmd)
	case protocol.DMap.GetEntry:
		s.getEntryCommandHandler(conn, rcmd)
	case protocol.DMap.Del:
		s.delCommandHandler(conn, rcmd)
	case protocol.DMap.DelEntry:
		s.delEntryCommandHandler(conn, rcmd)
	case protocol.DMap.Expire:
		s.expireCommandHandler(conn, rcmd)
	case protocol.DMap.PExpire:
		s.pexpireCommandHandler(conn, rcmd)
	case protocol.DMap.Destroy:
		s.destroyCommandHandler(conn, rcmd)
	case protocol.DMap.Scan:
		s.scanCommandHandler(conn, rcmd)
	case protocol.DMap.Incr:
		s.incrCommandHandler(conn, rcmd)
	case protocol.DMap.Decr:
		s.decrCommandHandler(conn, rcmd)
	case protocol.DMap.GetPut:
		s.getPutCommandHandler(conn, rcmd)
	case protocol.DMap.IncrByFloat:
		s.incrByFloatCommandHandler(conn, rcmd)
	case protocol.DMap.Lock:
		s.lockCommandHandler(conn, rcmd)
	case protocol.DMap.Unlock:
		s.unlockCommandHandler(conn, rcmd)
	case protocol.DMap.LockLease:
		s.lockLeaseCommandHandler(conn, rcmd)
	case protocol.DMap.PLockLease:
		s.plockLeaseCommandHandler(conn, rcmd)
	case protocol.Internal.MoveFragment:
		s.moveFragmentCommandHandler(conn, rcmd)
	default:
		// the routing table's internal commands (partition length query, routing-table push)
		if !s.rt.VerifHandle(name, conn, rcmd) {
			return errors.New("ERR unknown command '" + name + "'")
		}
	}
	if cl.drop > 0 {
		cl.drop--
		if cl.drop == 0 {
			return errors.New("read tcp: i/o timeout (reply lost)")
		}
	}
	return vpSetReply(cmd, conn)
}

// vpSetReply transfers the recorded reply into the go-redis command object.
func vpSetReply(cmd redis.Cmder, conn *vpRConn) error {
	if len(conn.items) == 0 {
		return errors.New("ERR no reply")
	}
	first := conn.items[0]
	if first.kind == "err" {
		return errors.New(first.s)
	}
	switch c := cmd.(type) {
	case *redis.StatusCmd:
		c.SetVal(first.s)
	case *redis.IntCmd:
		c.SetVal(first.n)
	case *redis.StringCmd:
		switch first.kind {
		case "null":
			return redis.Nil
		case "bulk":
			c.SetVal(string(first.b))
		case "str":
			c.SetVal(first.s)
		case "int":
			c.SetVal(strconv.FormatInt(first.n, 10))
		}
	case *redis.FloatCmd:
		f, err := strconv.ParseFloat(string(first.b), 64)
		if err != nil {
			return err
		}
		c.SetVal(f)
	case *redis.Cmd: // generic command (pipelines)
		switch first.kind {
		case "null":
			return redis.Nil
		case "bulk":
			c.SetVal(string(first.b))
		case "str":
			c.SetVal(first.s)
		case "int":
			c.SetVal(first.n)
		default:
			panic("vpSetReply: unsupported reply for a generic command")
		}
	case *redis.ScanCmd:
		// [cursor, [keys...]]
		var keys []string
		cursor := uint64(0)
		if len(conn.items) >= 3 {
			cursor, _ = strconv.ParseUint(string(conn.items[1].b), 10, 64)
			for _, it := range conn.items[3:] {
				keys = append(keys, string(it.b))
			}
		}
		c.SetVal(keys, cursor)
	default:
		panic("vpSetReply: unsupported command type")
	}
	return nil
}

// vpAttachRouting gives every member a real routing table state: membership view, consistent-hash ring with
// harness-chosen positions, and the loopback client for its RPCs. rot selects one of the ring layouts.
func (cl *vpClusterT) vpAttachRouting(rot int) {
	n := len(cl.members)
	pos := map[string]uint64{}
	for i, m := range cl.members {
		slot := uint64((i+rot)%n) * 10
		pos[m.member.Name+"0"] = slot + 5 // two virtual nodes
		pos[m.member.Name+"1"] = slot + 7
		pos[m.member.Name] = slot + 6 // member key (orders the replica owners)
	}
	skew := rot >= n
	for p := uint64(0); p < cl.parts; p++ {
		at := (p % uint64(n)) * 10
		if skew {
			// skewed layouts: partition 0 sits before the last ring slot, every other partition before the first
			// one - the member in the first slot is loaded up to the bound, so when the member in the last slot
			// goes away its partition wraps to the first slot and pushes the last partition on to the next member:
			// a partition moves from one survivor to another, with the old owner still holding the data.
			at = 0
			if p == 0 {
				at = uint64(n-1) * 10
			}
		}
		pos[string([]byte{byte(p), 0, 0, 0, 0, 0, 0, 0})] = at + 1
	}
	ring := routingtable.VerifRingHasher{Pos: pos}
	var live []discovery.Member
	for _, m := range cl.members {
		live = append(live, m.member)
	}
	for _, m := range cl.members {
		m.svc.rt.VerifAttach(live, ring, m.svc.client, m.svc.log)
	}
}

// vpCoordinator: the oldest member that is up.
func (cl *vpClusterT) vpCoordinator() *vpMember {
	var c *vpMember
	for _, m := range cl.members {
		if !m.down && (c == nil || m.member.Birthdate < c.member.Birthdate) {
			c = m
		}
	}
	return c
}

// vpFail stops a member: it no longer answers, the survivors' member lists report it gone (the real cluster-event
// handler runs on each survivor), and the coordinator recomputes and pushes the routing table.
func (cl *vpClusterT) vpFail(f int) {
	cl.members[f].down = true
	var still []discovery.Member
	for _, m := range cl.members {
		if !m.down {
			still = append(still, m.member)
		}
	}
	for _, m := range cl.members {
		if !m.down {
			m.svc.rt.VerifMemberLeft(cl.members[f].member, still)
		}
	}
	cl.vpCoordinator().svc.rt.VerifUpdateRouting()
}
