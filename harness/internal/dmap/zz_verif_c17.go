//go:build verif

package dmap

import (
	"context"
	"errors"
	"strings"

	"github.com/olric-data/olric/internal/cluster/partitions"
)

// VerifC17_DMapLimits: the size limits at the DMap level, with replication. A Put with a key of 1, 255, 256 or 257
// bytes and a value of 0, 2 or 40 solver-chosen bytes, table size default or 64 bytes, ReplicaCount 1 or 2 and any
// WriteQuorum, through the owner or forwarded by the other member: an entry that fits is stored and read back
// equal from both members and - with two replicas - the backup copy is identical; a key that is too long or an
// entry that does not fit a table is rejected with the documented error and no member keeps any copy of it
// (in particular no backup copy that could satisfy the write quorum on its own); a neighbour stored before is
// untouched either way.
func VerifC17_DMapLimits() {
	replicas := 1 + vpChoose("replicas", 2)
	w := 1
	if replicas == 2 {
		w = 1 + vpChoose("W", 2)
	}
	var tableSize uint64
	if vpChoose("smalltable", 2) == 1 {
		tableSize = 64
	}
	cl := vpNewCluster(vpClusterConfig{members: 2, replicaCount: replicas, writeQuorum: w, readQuorum: 1, partitions: 1, tableSize: tableSize})
	if replicas == 2 {
		cl.vpSetOwners(0, []int{0}, []int{1})
	} else {
		cl.vpSetOwners(0, []int{0}, nil)
	}
	ctx := context.Background()
	nval := vpBytes("nval", 2)
	vpAssume(vpDMap(cl.members[0], "d").Put(ctx, "n", nval, nil) == nil)

	klen := [4]int{1, 255, 256, 257}[vpChoose("klen", 4)]
	vlen := [3]int{0, 2, 40}[vpChoose("vlen", 3)]
	key := strings.Repeat("k", klen)
	val := vpBytes("val", vlen)
	want := vpCopyVal(val)
	entry := vpChoose("entry", 2)
	err := vpDMap(cl.members[entry], "d").Put(ctx, key, val, nil)

	tooLong := klen >= 256
	tooLarge := tableSize != 0 && uint64(klen+vlen+29) >= tableSize
	switch {
	case tooLong && tooLarge:
		vpAssert(errors.Is(err, ErrKeyTooLarge) || errors.Is(err, ErrEntryTooLarge), "oversized-rejected")
	case tooLong:
		vpAssert(errors.Is(err, ErrKeyTooLarge), "key-too-large-rejected")
	case tooLarge:
		vpAssert(errors.Is(err, ErrEntryTooLarge), "entry-too-large-rejected")
	default:
		vpAssert(err == nil, "fitting-entry-stored")
	}
	if err == nil {
		for m := 0; m < 2; m++ {
			g, gerr := vpDMap(cl.members[m], "d").Get(ctx, key)
			vpAssert(gerr == nil, "stored-entry-readable")
			if gerr == nil {
				vpAssert(vpAnd(g.Key() == key, vpBytesEq(g.Value(), want)), "stored-entry-reads-back-equal")
			}
		}
		if replicas == 2 {
			b, ok := vpCopy(cl.members[1], "d", key, partitions.BACKUP)
			vpAssert(ok, "backup-copy-present")
			if ok {
				vpAssert(vpAnd(b.Key() == key, vpBytesEq(b.Value(), want)), "backup-copy-equal")
			}
		}
	} else {
		_, okP := vpCopy(cl.members[0], "d", key, partitions.PRIMARY)
		_, okB := vpCopy(cl.members[1], "d", key, partitions.BACKUP)
		vpAssert(!okP && !okB, "rejected-entry-stored-nowhere")
		for m := 0; m < 2; m++ {
			_, gerr := vpDMap(cl.members[m], "d").Get(ctx, key)
			vpAssert(gerr != nil, "rejected-entry-not-readable")
		}
	}
	for m := 0; m < 2; m++ {
		g, gerr := vpDMap(cl.members[m], "d").Get(ctx, "n")
		vpAssert(gerr == nil, "neighbour-readable")
		if gerr == nil {
			vpAssert(vpBytesEq(g.Value(), nval), "neighbour-unchanged")
		}
	}
	if replicas == 2 {
		b, ok := vpCopy(cl.members[1], "d", "n", partitions.BACKUP)
		vpAssert(ok, "neighbour-backup-present")
		if ok {
			vpAssert(vpBytesEq(b.Value(), nval), "neighbour-backup-unchanged")
		}
	}
	vpReach("end")
}

func vpCopyVal(b []byte) []byte {
	c := make([]byte, len(b))
	copy(c, b)
	return c
}
