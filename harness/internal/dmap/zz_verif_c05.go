//go:build verif

package dmap

import (
	"context"
	"errors"

	"github.com/olric-data/olric/internal/cluster/partitions"
)

// VerifC05_WriteQuorum: a Put is acknowledged iff at least WriteQuorum copies were stored; otherwise it fails with
// the write-quorum error; an unreachable backup owner alone never fails it. R in {2,3}, W symbolic in [1,R],
// every subset of backup owners unreachable, entry through the owner or through a non-owner (forwarded).
func VerifC05_WriteQuorum() {
	r := 2 + vpChoose("replicas", 2)
	w := vpRange("W", 1, r)
	cl := vpNewCluster(vpClusterConfig{members: r + 1, replicaCount: r, writeQuorum: w, readQuorum: 1, partitions: 1})
	cl.vpSetOwners(0, []int{0}, vpIntList(1, r))
	for i := 1; i < r; i++ {
		cl.members[i].down = vpBool("down")
	}
	entry := vpChoose("entry", 2) * r // the owner, or the bystander member r
	dm := vpDMap(cl.members[entry], "d")
	val := vpBytes("val", 2)
	err := dm.Put(context.Background(), "k", val, nil)

	copies := 0
	if _, ok := vpCopy(cl.members[0], "d", "k", partitions.PRIMARY); ok {
		copies++
	}
	for i := 1; i < r; i++ {
		if _, ok := vpCopy(cl.members[i], "d", "k", partitions.BACKUP); ok {
			copies++
		}
	}
	if err == nil {
		vpAssert(copies >= w, "ack-implies-write-quorum-copies")
	} else {
		vpAssert(errors.Is(err, ErrWriteQuorum), "failure-is-write-quorum-error")
		vpAssert(copies < w, "quorum-met-implies-ack")
	}
	// every reachable owner must have received the entry
	for i := 1; i < r; i++ {
		if !cl.members[i].down {
			_, ok := vpCopy(cl.members[i], "d", "k", partitions.BACKUP)
			vpAssert(ok, "reachable-backup-has-copy")
		}
	}
	vpReach("end")
}
