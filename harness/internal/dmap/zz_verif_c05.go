//go:build verif

package dmap

import (
	"context"
	"errors"

	"github.com/olric-data/olric/internal/cluster/partitions"
	"github.com/olric-data/olric/internal/cluster/routingtable"
)

// VerifC05_WriteQuorum: a Put is acknowledged iff at least WriteQuorum copies were stored; otherwise it fails with
// the write-quorum error; an unreachable backup owner alone never fails it. R in {2,3}, W symbolic in [1,R],
// every subset of backup owners unreachable, entry through the owner or through a non-owner (forwarded).
func VerifC05_WriteQuorum() {
	r := 2 + vpChoose("replicas", 2)
	w := vpRange("W", 1, r)
	cl := vpNewCluster(vpClusterConfig{members: r + 1, replicaCount: r, writeQuorum: w, readQuorum: 1, partitions: 1})
	cl.vpSetOwners(0, []int{0}, vpIntList(1, r))
	for i := 1; i < r; i++ {
		cl.members[i].down = vpBool("down")
	}
	entry := vpChoose("entry", 2) * r // the owner, or the bystander member r
	dm := vpDMap(cl.members[entry], "d")
	val := vpBytes("val", 2)
	err := dm.Put(context.Background(), "k", val, nil)

	copies := 0
	if _, ok := vpCopy(cl.members[0], "d", "k", partitions.PRIMARY); ok {
		copies++
	}
	for i := 1; i < r; i++ {
		if _, ok := vpCopy(cl.members[i], "d", "k", partitions.BACKUP); ok {
			copies++
		}
	}
	if err == nil {
		vpAssert(copies >= w, "ack-implies-write-quorum-copies")
	} else {
		vpAssert(errors.Is(err, ErrWriteQuorum), "failure-is-write-quorum-error")
		vpAssert(copies < w, "quorum-met-implies-ack")
	}
	// every reachable owner must have received the entry
	for i := 1; i < r; i++ {
		if !cl.members[i].down {
			_, ok := vpCopy(cl.members[i], "d", "k", partitions.BACKUP)
			vpAssert(ok, "reachable-backup-has-copy")
		}
	}
	vpReach("end")
}

// VerifC05_MemberQuorum: with MemberCountQuorum and the number of members this member currently sees both chosen by
// the solver, every attempt to open a DMap - a new name, or a name that was opened earlier while the cluster was
// healthy - fails with the cluster-quorum error exactly when members < quorum, and then creates nothing.
func VerifC05_MemberQuorum() {
	cl := vpNewCluster(vpClusterConfig{members: 1, replicaCount: 1, writeQuorum: 1, readQuorum: 1, partitions: 1})
	cl.vpSetOwners(0, []int{0}, nil)
	s := cl.members[0].svc
	quorum := vpRange("memberCountQuorum", 1, 5)
	s.config.MemberCountQuorum = int32(quorum)
	// phase 1: possibly open "x" while the quorum holds
	opened := vpBool("openedWhileHealthy")
	if opened {
		s.rt.SetNumMembersEagerly(int32(quorum))
		_, err := s.NewDMap("x")
		vpAssert(err == nil, "open-succeeds-with-quorum")
	}
	// phase 2: the member now sees a solver-chosen number of members
	members := vpRange("members", 0, 6)
	s.rt.SetNumMembersEagerly(int32(members))
	name := "x"
	if vpBool("freshName") {
		name = "y"
	}
	before := len(s.dmaps)
	dm, err := s.NewDMap(name)
	if members < quorum {
		vpAssert(errors.Is(err, routingtable.ErrClusterQuorum), "open-below-quorum-fails-with-cluster-quorum-error")
		vpAssert(dm == nil, "open-below-quorum-returns-no-handle")
		vpAssert(len(s.dmaps) == before, "open-below-quorum-creates-nothing")
	} else {
		vpAssert(err == nil && dm != nil, "open-with-quorum-succeeds")
	}
	vpReach("end")
}
