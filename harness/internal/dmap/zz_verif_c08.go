//go:build verif

package dmap

import (
	"context"
	"errors"
	"time"
)

var vpLeaseMs = [3]int{10, 40, 1000}

// VerifC08_Lock: one lock key, any script over Lock (with or without timeout, non-waiting: deadline 0), Unlock and
// Lease with the current, a stale or a forged token, and the passing of time, through the owner or another member,
// clock and durations solver-chosen. Reference: (holder token, expiry). Lock returns a token only if the key is free
// or the previous holder's timeout has elapsed; Unlock/Lease with a wrong token fail with no-such-lock and change
// nothing; a timed lock is not acquirable before its timeout and is acquirable after it through either member; an
// untimed lock is held until unlocked.
func vpLockScript(mirrorOnly bool) {
	chk := func(c bool, label string) {
		if !mirrorOnly {
			vpAssert(c, label)
		}
	}
	steps := vpBound("steps")
	replicas := 2
	if !mirrorOnly {
		replicas = 1 + vpChoose("replicas", 2)
	}
	cl := vpTwoMembers(replicas, 0)
	ctx := context.Background()
	reg := &vpReg{}
	var tokens [][]byte // every token ever handed out
	forged := []byte{1, 2, 3, 4, 5, 6, 7, 8, 9, 10, 11, 12, 13, 14, 15, 16}
	for i := 0; i < steps; i++ {
		entry := vpChoose("entry", 2)
		dm := vpDMap(cl.members[entry], "l")
		if i > 0 {
			vpSleepMs(vpRange("wait", 0, 70))
		}
		now := vpNowMs()
		reg.vpClear(now)
		held := reg.visible(now)
		switch vpChoose("op", 3) {
		case 0: // Lock
			timeout := time.Duration(0)
			var deadline int64
			if vpBool("timed") {
				d := vpRange("timeout", 1, 60)
				timeout = time.Duration(d) * time.Millisecond
				deadline = now + int64(d)
			}
			tok, err := dm.Lock(ctx, "k", timeout, 0)
			if held {
				chk(errors.Is(err, ErrLockNotAcquired), "held-lock-is-not-acquired")
			} else {
				chk(err == nil, "free-or-expired-lock-is-acquired")
				if err == nil {
					for _, old := range tokens {
						vpAssume(!vpBytesEq(old, tok)) // random 128-bit tokens are pairwise distinct
					}
					tokens = append(tokens, tok)
					*reg = vpReg{present: true, val: vpDup(tok), deadline: deadline}
				}
			}
		case 1, 2: // Unlock / Lease with some token
			var tok []byte
			which := vpChoose("token", 3)
			switch {
			case which == 0 && len(tokens) > 0:
				tok = tokens[len(tokens)-1]
			case which == 1 && len(tokens) > 1:
				tok = tokens[0]
			default:
				tok = forged
			}
			current := held && vpBytesEq(tok, reg.val)
			if vpChoose("lease", 2) == 0 {
				err := dm.Unlock(ctx, "k", tok)
				if current {
					chk(err == nil, "holder-can-unlock")
					if err == nil {
						*reg = vpReg{}
					}
				} else {
					chk(errors.Is(err, ErrNoSuchLock), "wrong-token-unlock-fails")
				}
			} else {
				// Lease durations travel as float seconds on the forwarded path: drawn from a concrete set
				d := vpLeaseMs[vpChoose("lease", len(vpLeaseMs))]
				err := dm.Lease(ctx, "k", tok, time.Duration(d)*time.Millisecond)
				if current {
					chk(err == nil, "holder-can-lease")
					if err == nil {
						reg.deadline = now + int64(d)
					}
				} else {
					chk(errors.Is(err, ErrNoSuchLock), "wrong-token-lease-fails")
				}
			}
		}
		if replicas == 2 && mirrorOnly {
			vpCheckMirror(cl, "l", "k")
		}
		// the lock entry itself: present with the holder's token exactly while held
		now = vpNowMs()
		reg.vpClear(now)
		e, err := vpDMap(cl.members[0], "l").Get(ctx, "k")
		if reg.visible(now) {
			chk(err == nil && vpBytesEq(e.Value(), reg.val), "lock-state-after-step")
		} else {
			chk(errors.Is(err, ErrKeyNotFound), "lock-free-after-step")
		}
	}
	vpReach("end")
}

func VerifC08_Lock() { vpLockScript(false) }

// VerifC04_MirrorLock: Lock / Unlock / Lease scripts with ReplicaCount 2: the backup copy of the lock entry mirrors
// the primary copy after every step.
func VerifC04_MirrorLock() { vpLockScript(true) }

// VerifC08_LockWait: a lock is held with a solver-chosen timeout (or none); a second client calls Lock with a
// solver-chosen positive deadline, through the owner or another member. It either acquires the lock - never
// before the holder's timeout has elapsed - or fails with lock-not-acquired, never earlier than its deadline. When
// it acquires the lock with a timeout of its own, a third client is refused until that timeout, counted from the
// acquisition, is over, and served afterwards.
func VerifC08_LockWait() {
	cl := vpTwoMembers(1, 0)
	ctx := context.Background()
	t0 := vpNowMs()
	holderDeadline := int64(0)
	timeout := time.Duration(0)
	if vpBool("timed") {
		d := vpRange("timeout", 1, 45)
		timeout = time.Duration(d) * time.Millisecond
		holderDeadline = t0 + int64(d)
	}
	_, err := vpDMap(cl.members[0], "l").Lock(ctx, "k", timeout, 0)
	vpAssume(err == nil)
	wait := vpRange("deadline", 1, 45)
	entry := vpChoose("entry", 2)
	before := vpNowMs()
	// the waiting locker asks for a timeout of its own (or none): it counts from the moment the lock is acquired
	timeout2 := int64(0)
	if vpBool("timed2") {
		timeout2 = int64(vpRange("timeout2", 15, 45))
	}
	tok, err := vpDMap(cl.members[entry], "l").Lock(ctx, "k", time.Duration(timeout2)*time.Millisecond, time.Duration(wait)*time.Millisecond)
	after := vpNowMs()
	if err == nil {
		vpAssert(len(tok) == 16, "token-returned")
		vpAssert(holderDeadline != 0 && after >= holderDeadline, "lock-acquired-only-after-holder-timeout")
		// a third client tries after a solver-chosen pause: it gets the lock only once the second holder's own
		// timeout, counted from its acquisition, is over
		pause := int64(vpRange("pause", 0, 60))
		vpSleepMs(int(pause))
		now3 := vpNowMs()
		_, err3 := vpDMap(cl.members[vpChoose("entry3", 2)], "l").Lock(ctx, "k", 0, 0)
		switch {
		case timeout2 == 0 || now3+vpMarginMs <= after+timeout2:
			vpAssert(errors.Is(err3, ErrLockNotAcquired), "waiting-lockers-lock-is-held-for-its-whole-timeout")
		case now3 >= after+timeout2+vpMarginMs:
			vpAssert(err3 == nil, "waiting-lockers-lock-expires-after-its-timeout")
		}
	} else {
		vpAssert(errors.Is(err, ErrLockNotAcquired), "waiting-lock-fails-with-lock-not-acquired")
		vpAssert(after-before >= int64(wait), "lock-not-acquired-no-earlier-than-deadline")
	}
	vpReach("end")
}
