//go:build verif

package dmap

import (
	"context"
	"errors"

	"github.com/olric-data/olric/internal/cluster/partitions"
	"github.com/olric-data/olric/internal/discovery"
)

var vpHoKeys = [2]string{"h0", "h1"}

type vpHoRef struct {
	present bool
	val     byte
}

// vpHoOp issues one client operation of solver-chosen kind during the hand-over and updates the reference.
func vpHoOp(cl *vpClusterT, ref []vpHoRef, tag byte, enabled bool) {
	ctx := context.Background()
	vpSleepMs(1) // client operations and table moves are at least a millisecond apart (distinct write timestamps)
	if !enabled {
		return
	}
	kind := vpChoose("op", 4)
	if kind == 0 {
		return
	}
	k := vpChoose("key", len(vpHoKeys))
	dm := vpDMap(cl.members[vpChoose("entry", 2)], "d")
	switch kind {
	case 1:
		err := dm.Put(ctx, vpHoKeys[k], []byte{tag}, nil)
		vpAssert(err == nil, "put-during-handover-succeeds")
		if err == nil {
			ref[k] = vpHoRef{present: true, val: tag}
		}
	case 2:
		_, err := dm.Delete(ctx, vpHoKeys[k])
		vpAssert(err == nil, "delete-during-handover-succeeds")
		if err == nil {
			ref[k] = vpHoRef{}
		}
	case 3:
		e, err := dm.Get(ctx, vpHoKeys[k])
		if ref[k].present {
			vpAssert(err == nil && len(e.Value()) == 1 && e.Value()[0] == ref[k].val, "read-finds-value-wherever-it-lives")
		} else {
			vpAssert(errors.Is(err, ErrKeyNotFound), "deleted-key-not-found-during-handover")
		}
	}
}

// VerifC03_HandOver: a partition with a multi-table fragment (symbolic table size) is handed over from member 0 to a
// joining member 1: routing-table push, then one table move at a time, with one client operation of solver-chosen
// kind (Put / Delete / Get on any key through any member, or none) before the push, after the push, between the
// moves and after them, and optionally a move whose reply is lost (the table is merged but not dropped, then moved
// again). In the end every key reads its last acknowledged value from both members, deleted keys stay deleted, the
// previous owner holds nothing and the new owner holds each live key exactly once.
func VerifC03_HandOver() {
	size := vpU64("tableSize")
	vpAssume(size >= 34 && size <= 70)
	slots := vpBound("slots")
	cl := vpTwoMembers(1, size)
	ctx := context.Background()
	ref := make([]vpHoRef, len(vpHoKeys))
	// history before the join: every key written through the sole member
	for i, k := range vpHoKeys {
		vpSleepMs(1)
		vpAssume(vpDMap(cl.members[0], "d").Put(ctx, k, []byte{byte('a' + i)}, nil) == nil)
		ref[i] = vpHoRef{present: true, val: byte('a' + i)}
	}
	vpHoOp(cl, ref, 'p', slots >= 4)
	// routing-table push: member 1 is the new owner, member 0 a previous owner that still holds the data
	cl.vpSetOwners(0, []int{0, 1}, nil)
	vpHoOp(cl, ref, 'q', slots >= 1)
	src := cl.members[0]
	sdm := vpDMap(src, "d")
	part := src.svc.primary.PartitionByID(0)
	lost := vpChoose("lostreply", 3) // 0: never, 1: first move, 2: second move
	for move := 1; move <= 6; move++ {
		f, err := sdm.loadFragment(part)
		if err != nil || f.Stats().Length == 0 {
			break
		}
		if lost == move {
			cl.drop = 1
		}
		merr := f.Move(part, "d", []discovery.Member{cl.members[1].member})
		cl.drop = 0
		if lost != move {
			vpAssert(merr == nil, "move-succeeds")
		}
		if move <= 2 {
			vpHoOp(cl, ref, byte('r'+move), slots >= 1+move)
		}
	}
	// the hand-over is complete: previous owner empty and pruned from the owners list
	if f, err := sdm.loadFragment(part); err == nil {
		vpAssert(f.Stats().Length == 0, "previous-owner-is-drained")
	}
	cl.vpSetOwners(0, []int{1}, nil)
	live := 0
	for i, k := range vpHoKeys {
		for m := 0; m < 2; m++ {
			e, err := vpDMap(cl.members[m], "d").Get(ctx, k)
			if ref[i].present {
				vpAssert(err == nil && len(e.Value()) == 1 && e.Value()[0] == ref[i].val, "key-readable-with-last-acknowledged-value")
			} else {
				vpAssert(errors.Is(err, ErrKeyNotFound), "deleted-key-stays-deleted")
			}
		}
		if ref[i].present {
			live++
		}
	}
	ndm := vpDMap(cl.members[1], "d")
	if nf, err := ndm.loadFragment(cl.members[1].svc.primary.PartitionByID(0)); err == nil {
		vpAssert(nf.Stats().Length == live, "each-live-key-stored-exactly-once-on-the-new-owner")
	} else {
		vpAssert(live == 0, "new-owner-has-the-fragment")
	}
	_ = partitions.PRIMARY
	vpReach("end")
}
