//go:build verif

package dmap

import (
	"context"
	"time"

	"github.com/olric-data/olric/config"
	"github.com/olric-data/olric/internal/cluster/partitions"
)

var vpEvKeys = [4]string{"e0", "e1", "e2", "e3"}

// VerifC10_MaxKeys: LRU eviction with MaxKeys, the number of owned partitions and LRUSamples chosen by the solver
// (including MaxKeys smaller than the partition count and MaxKeys not divisible by it), any sequence of Puts over
// four keys of one partition, every sampling order: after every Put the fragment holds at most max(MaxKeys/owned, 1)
// keys, the Put did not fail because of a limit, and the key just written is readable.
func VerifC10_MaxKeys() {
	steps := vpBound("steps")
	maxKeys := vpRange("maxKeys", 1, 7)
	owned := vpRange("owned", 1, 4)
	samples := vpRange("lruSamples", 1, 3)
	cl := vpNewCluster(vpClusterConfig{members: 1, replicaCount: 1, writeQuorum: 1, readQuorum: 1, partitions: 1,
		dmaps: &config.DMaps{EvictionPolicy: config.LRUEviction, MaxKeys: maxKeys, LRUSamples: samples}})
	cl.vpSetOwners(0, []int{0}, nil)
	cl.members[0].svc.rt.VerifSetOwned(uint64(owned))
	ctx := context.Background()
	dm := vpDMap(cl.members[0], "d")
	share := maxKeys / owned
	if share < 1 {
		share = 1
	}
	vpMapOrder("rotate")
	for i := 0; i < steps; i++ {
		k := vpEvKeys[vpChoose("key", len(vpEvKeys))]
		err := dm.Put(ctx, k, []byte{byte(i)}, nil)
		vpAssert(err == nil, "put-never-fails-for-a-limit")
		e, gerr := dm.Get(ctx, k)
		vpAssert(gerr == nil && len(e.Value()) == 1 && e.Value()[0] == byte(i), "fresh-key-readable")
		part := dm.getPartitionByHKey(partitions.HKey("d", k), partitions.PRIMARY)
		f, _ := dm.loadFragment(part)
		vpAssert(f.storage.Stats().Length <= share, "fragment-within-its-share-of-maxkeys")
	}
	vpReach("end")
}

// VerifC10_MaxInuse: the same for MaxInuse with equally sized entries: bytes in use never exceed the partition's
// share by more than one entry.
func VerifC10_MaxInuse() {
	steps := vpBound("steps")
	const entrySize = 2 + 1 + 29 // key "eN", one value byte, metadata
	maxInuse := vpRange("maxInuse", 1, 5*entrySize)
	owned := vpRange("owned", 1, 3)
	cl := vpNewCluster(vpClusterConfig{members: 1, replicaCount: 1, writeQuorum: 1, readQuorum: 1, partitions: 1,
		dmaps: &config.DMaps{EvictionPolicy: config.LRUEviction, MaxInuse: maxInuse, LRUSamples: 2}})
	cl.vpSetOwners(0, []int{0}, nil)
	cl.members[0].svc.rt.VerifSetOwned(uint64(owned))
	ctx := context.Background()
	dm := vpDMap(cl.members[0], "d")
	vpMapOrder("rotate")
	for i := 0; i < steps; i++ {
		k := vpEvKeys[vpChoose("key", len(vpEvKeys))]
		err := dm.Put(ctx, k, []byte{byte(i)}, nil)
		vpAssert(err == nil, "put-never-fails-for-a-limit")
		_, gerr := dm.Get(ctx, k)
		vpAssert(gerr == nil, "fresh-key-readable")
		part := dm.getPartitionByHKey(partitions.HKey("d", k), partitions.PRIMARY)
		f, _ := dm.loadFragment(part)
		vpAssert(f.storage.Stats().Inuse <= maxInuse/owned+entrySize, "inuse-within-share-plus-one-entry")
	}
	vpReach("end")
}

// VerifC10_Idle: with MaxIdleDuration a key read or written within the idle window is never reported idle (and so
// never evicted for idleness by the scan), and a key untouched for longer than the window is evicted when the scan
// visits it - also when the key lives in an older storage table of the fragment and the newest table is empty.
func VerifC10_Idle() {
	window := vpRange("windowMs", 5, 50)
	// spill: the fragment's tables hold one entry each and a second key is written after "k" (and then possibly
	// deleted again), so that "k" lives in an older table and the newest table may hold no live key
	spill := vpChoose("spill", 3)
	var tableSize uint64
	if spill != 0 {
		tableSize = 40
	}
	replicas := 1 + vpChoose("replicas", 2)
	cl := vpNewCluster(vpClusterConfig{members: replicas, replicaCount: replicas, writeQuorum: 1, readQuorum: 1, partitions: 1, tableSize: tableSize,
		dmaps: &config.DMaps{MaxIdleDuration: time.Duration(window) * time.Millisecond}})
	if replicas == 2 {
		cl.vpSetOwners(0, []int{0}, []int{1})
	} else {
		cl.vpSetOwners(0, []int{0}, nil)
	}
	ctx := context.Background()
	dm := vpDMap(cl.members[0], "d")
	vpAssume(dm.Put(ctx, "k", []byte{1}, nil) == nil)
	if spill != 0 {
		vpAssume(dm.Put(ctx, "j", []byte{1}, nil) == nil)
		if spill == 2 {
			_, derr := dm.Delete(ctx, "j")
			vpAssume(derr == nil)
		}
	}
	written := vpNowMs()
	vpSleepMs(vpRange("wait1", 0, 60))
	touched := vpNowMs()
	// the access itself keeps a margin from the end of the window that began with the write (native replay sleeps
	// overshoot; an access that lands on the deadline says nothing)
	vpAssume(touched-written >= int64(window)+vpMarginMs || touched-written+vpMarginMs < int64(window))
	if vpBool("touchByGet") {
		_, err := dm.Get(ctx, "k")
		// a Get may itself find the key idle; only a successful access refreshes it
		if err != nil {
			vpReach("end")
			return
		}
	} else {
		vpAssume(dm.Put(ctx, "k", []byte{2}, nil) == nil)
	}
	vpSleepMs(vpRange("wait2", 0, 60))
	now := vpNowMs()
	vpAssume(now-touched >= int64(window)+vpMarginMs || now-touched+vpMarginMs < int64(window))
	// one round of the background eviction worker (the real entry point: it picks the partition and hands the
	// fragment to the scan)
	cl.members[0].svc.evictKeys()
	_, present := vpCopy(cl.members[0], "d", "k", partitions.PRIMARY)
	if now-touched < int64(window) {
		vpAssert(present, "key-accessed-within-window-is-not-evicted")
	} else {
		vpAssert(!present, "idle-key-is-evicted-when-scanned")
		if replicas == 2 {
			_, onBackup := vpCopy(cl.members[1], "d", "k", partitions.BACKUP)
			vpAssert(!onBackup, "evicted-key-is-removed-from-the-backup-too")
		}
	}
	vpReach("end")
}

// VerifC10_EvictionDuringHandOver: the background eviction round on a member that is only a *previous* owner of
// the partition (the hand-over to the new owner is not finished, its fragment still holds an expired or idle key)
// and on the new owner. Neither round may wedge: the scan holds the fragment lock while it deletes "on the cluster",
// and the list of previous owners it sends deletes to contains the scanning member itself. Afterwards every
// operation on the fragment still gets through.
func VerifC10_EvictionDuringHandOver() {
	cl := vpNewCluster(vpClusterConfig{members: 2, replicaCount: 1, writeQuorum: 1, readQuorum: 1, partitions: 1,
		dmaps: &config.DMaps{MaxIdleDuration: 10 * time.Millisecond}})
	cl.vpSetOwners(0, []int{0, 1}, nil) // member 0: previous owner, member 1: current owner
	now := vpNowMs()
	for m := 0; m < 2; m++ {
		if vpChoose("holds", 2) == 1 {
			ttl := int64(0)
			if vpChoose("expired", 2) == 1 {
				ttl = now - 1000
			}
			vpPlace(cl.members[m], "d", "k", []byte{byte(m)}, ttl, 1, partitions.PRIMARY)
		}
	}
	vpSleepMs(20) // past the idle window
	first := vpChoose("first", 2)
	cl.members[first].svc.evictKeys()
	cl.members[1-first].svc.evictKeys()
	// the fragment locks are free again: a write and a read through each member complete
	ctx := context.Background()
	for m := 0; m < 2; m++ {
		vpAssert(vpDMap(cl.members[m], "d").Put(ctx, "k2", []byte{9}, nil) == nil, "write-after-eviction-round-completes")
		_, err := vpDMap(cl.members[m], "d").Get(ctx, "k2")
		vpAssert(err == nil, "read-after-eviction-round-completes")
	}
	vpReach("end")
}
