//go:build verif

package dmap

import (
	"context"
	"errors"
)

// VerifC01_Register: sequential register conformance of Put (plain, NX, XX), Get and Delete on one key, issued
// through the owner or through another member, on fragments whose storage table is so small (symbolic size) that
// the key's versions and a filler key spread over several tables: every Get returns the value of the latest
// preceding Put, or not-found after a Delete, and conditional Puts succeed or fail accordingly.
func VerifC01_Register() {
	steps := vpBound("steps")
	replicas := 1 + vpChoose("replicas", 2)
	size := vpU64("tableSize")
	vpAssume(size >= 34 && size <= 110)
	cl := vpTwoMembers(replicas, size)
	ctx := context.Background()
	reg := &vpReg{}
	for i := 0; i < steps; i++ {
		entry := vpChoose("entry", 2)
		dm := vpDMap(cl.members[entry], "d")
		switch 2 + vpChoose("op", 4) {
		case 2: // Put plain / NX / XX
			v := vpBytes("val", 1+vpChoose("vlen", 2)*2)
			pc := &PutConfig{}
			kind := vpChoose("cond", 3)
			pc.HasNX = kind == 1
			pc.HasXX = kind == 2
			err := dm.Put(ctx, "k", v, pc)
			switch {
			case pc.HasNX && reg.present:
				vpAssert(errors.Is(err, ErrKeyFound), "nx-fails-on-present-key")
			case pc.HasXX && !reg.present:
				vpAssert(errors.Is(err, ErrKeyNotFound), "xx-fails-on-absent-key")
			default:
				vpAssert(err == nil, "put-succeeds")
				if err == nil {
					*reg = vpReg{present: true, val: vpDup(v)}
				}
			}
		case 3: // Get
			e, err := dm.Get(ctx, "k")
			if reg.present {
				vpAssert(err == nil, "get-finds-present-key")
				if err == nil {
					vpAssert(vpBytesEq(e.Value(), reg.val), "get-returns-latest-put")
				}
			} else {
				vpAssert(errors.Is(err, ErrKeyNotFound), "get-after-delete-is-not-found")
			}
		case 4: // Delete
			_, err := dm.Delete(ctx, "k")
			vpAssert(err == nil, "delete-succeeds")
			*reg = vpReg{}
		case 5: // a write to another key of the same fragment (moves the head table on)
			err := dm.Put(ctx, "f", vpBytes("fill", 2), nil)
			vpAssert(err == nil, "filler-put-succeeds")
		}
	}
	for m := 0; m < 2; m++ {
		e, err := vpDMap(cl.members[m], "d").Get(context.Background(), "k")
		if reg.present {
			vpAssert(err == nil && vpBytesEq(e.Value(), reg.val), "final-read-latest")
		} else {
			vpAssert(errors.Is(err, ErrKeyNotFound), "final-read-not-found")
		}
	}
	vpReach("end")
}

// VerifC01_Routing: the partition of a key is computed identically by every component that routes requests.
func VerifC01_Routing() {
	count := vpU64("partitionCount")
	vpAssume(count >= 1 && count <= 1<<20)
	hkey := vpU64("hkey")
	cl := vpNewCluster(vpClusterConfig{members: 1, replicaCount: 1, writeQuorum: 1, readQuorum: 1, partitions: 3})
	_ = cl
	// Partitions.PartitionIDByHKey is hkey % count for the configured count
	id := cl.members[0].svc.primary.PartitionIDByHKey(hkey)
	vpAssert(id == hkey%3, "partition-id-is-hkey-mod-count")
	vpAssert(hkey%count < count, "partition-id-in-range")
	vpReach("end")
}

// VerifC04_MirrorTables: ReplicaCount 2 on fragments whose storage table is so small (symbolic size) that versions of
// the key and a filler key spread over several tables on the primary and on the backup: after every acknowledged
// Put (plain, two value sizes), Delete and filler Put, through either member, the backup copy of both keys equals
// the primary copy and is absent exactly when the primary copy is absent.
func VerifC04_MirrorTables() {
	steps := vpBound("steps")
	size := vpU64("tableSize")
	vpAssume(size >= 34 && size <= 110)
	cl := vpTwoMembers(2, size)
	ctx := context.Background()
	for i := 0; i < steps; i++ {
		dm := vpDMap(cl.members[vpChoose("entry", 2)], "d")
		switch vpChoose("op", 3) {
		case 0:
			v := vpBytes("val", 1+vpChoose("vlen", 2)*2)
			vpAssert(dm.Put(ctx, "k", v, nil) == nil, "put-succeeds")
		case 1:
			_, err := dm.Delete(ctx, "k")
			vpAssert(err == nil, "delete-succeeds")
		case 2:
			vpAssert(dm.Put(ctx, "f", vpBytes("fill", 2), nil) == nil, "filler-put-succeeds")
		}
		vpSleepMs(1)
		vpCheckMirror(cl, "d", "k")
		vpCheckMirror(cl, "d", "f")
	}
	vpReach("end")
}
