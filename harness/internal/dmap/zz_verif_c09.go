//go:build verif

package dmap

import (
	"context"
	"errors"
	"strconv"
	"time"

	"github.com/olric-data/olric/config"
	"github.com/olric-data/olric/internal/cluster/partitions"
)

// Reference register for one key: present, value, absolute deadline in ms (0 = none).
type vpReg struct {
	present  bool
	val      []byte
	deadline int64
}

const vpMarginMs = 5 // operations are not issued within this many ms before a deadline (replayable natively)

func (r *vpReg) visible(now int64) bool {
	return r.present && (r.deadline == 0 || now < r.deadline)
}

// vpClear assumes that "now" is not inside the margin before the register's deadline.
func (r *vpReg) vpClear(now int64) {
	if r.present && r.deadline != 0 {
		vpAssume(now >= r.deadline || now+vpMarginMs < r.deadline)
	}
}

var vpVals = [3]int{3, 10, -7}
var vpExMs = [3]int{1000, 1500, 900}

func vpIntBytes(n int) []byte { return []byte(strconv.Itoa(n)) }

// vpTwoMembers builds a two member loopback cluster: member 0 owns the single partition, member 1 is either a
// bystander (replicas=1) or the backup owner (replicas=2).
func vpTwoMembers(replicas int, tableSize uint64) *vpClusterT {
	return vpTwoMembersTTL(replicas, tableSize, 0)
}

func vpTwoMembersTTL(replicas int, tableSize uint64, defaultTTLMs int) *vpClusterT {
	cl := vpNewCluster(vpClusterConfig{members: 2, replicaCount: replicas, writeQuorum: 1, readQuorum: 1, partitions: 1, tableSize: tableSize,
		dmaps: &config.DMaps{TTLDuration: time.Duration(defaultTTLMs) * time.Millisecond}})
	if replicas == 2 {
		cl.vpSetOwners(0, []int{0}, []int{1})
	} else {
		cl.vpSetOwners(0, []int{0}, nil)
	}
	return cl
}

// VerifC09_Expiry: one key, any script over Put (plain / NX / XX, with EX / PX / EXAT / PXAT or none), Get, Delete,
// Expire, GetPut, Incr and the passing of time, issued through the owner or through another member, with the
// clock, ttl values and waits chosen by the solver: every result and the follow-up visibility equal the
// reference register (visible until the deadline, never after; plain Put and GetPut clear the expiry, Incr keeps
// it, Expire replaces it without touching the value).
func vpExpiryScript(mirrorOnly bool) {
	chk := func(c bool, label string) {
		if !mirrorOnly {
			vpAssert(c, label)
		}
	}
	steps := vpBound("steps")
	full := vpBound("full") != 0
	replicas := 2
	if !mirrorOnly {
		replicas = 1 + vpChoose("replicas", 2)
	}
	defTTL := int64(vpChoose("defaultttl", 2) * 45) // DMap default TTL: none or 45ms
	cl := vpTwoMembersTTL(replicas, 0, int(defTTL))
	ctx := context.Background()
	reg := &vpReg{}
	nvals := 1
	nexp := 3
	if full {
		nvals = len(vpVals)
		nexp = 5
	}
	dflt := func(now int64) int64 {
		if defTTL == 0 {
			return 0
		}
		return now + defTTL
	}
	for i := 0; i < steps; i++ {
		entry := vpChoose("entry", 2)
		dm := vpDMap(cl.members[entry], "d")
		if i > 0 {
			// a solver-chosen amount of time (possibly none) passes before every operation but the first
			vpSleepMs(vpRange("wait", 0, 70))
		}
		now := vpNowMs()
		reg.vpClear(now)
		vis := reg.visible(now)
		switch vpChoose("op", 6) {
		case 0: // Put with any option combination
			v := vpVals[vpChoose("val", nvals)]
			pc := &PutConfig{}
			switch vpChoose("cond", 3) {
			case 1:
				pc.HasNX = true
			case 2:
				pc.HasXX = true
			}
			deadline := dflt(now)
			switch vpChoose("exp", nexp) {
			case 1:
				d := vpRange("px", 1, 60)
				pc.HasPX, pc.PX = true, time.Duration(d)*time.Millisecond
				deadline = now + int64(d)
			case 2:
				ms := vpExMs[vpChoose("ex", len(vpExMs))] // EX travels as float seconds when forwarded
				pc.HasEX, pc.EX = true, time.Duration(ms)*time.Millisecond
				deadline = now + int64(ms)
			case 3:
				d := vpRange("pxat", 1, 60)
				pc.HasPXAT, pc.PXAT = true, time.Duration(now+int64(d))*time.Millisecond
				deadline = now + int64(d)
			case 4:
				// EXAT travels as float seconds on the forwarded path: only issued at instants that are constants
				// in the engine (before any solver-chosen wait), always natively
				vpNeedConcrete(now)
				k := 1 + vpChoose("exat", 2)
				at := now + int64(k)*1000
				pc.HasEXAT, pc.EXAT = true, time.Duration(at)*time.Millisecond
				deadline = at
			}
			err := dm.Put(ctx, "k", v, pc)
			switch {
			case pc.HasNX && vis:
				chk(errors.Is(err, ErrKeyFound), "nx-on-visible-key-fails")
			case pc.HasXX && !vis:
				chk(errors.Is(err, ErrKeyNotFound), "xx-on-invisible-key-fails")
			default:
				chk(err == nil, "put-succeeds")
				if err == nil {
					*reg = vpReg{present: true, val: vpIntBytes(v), deadline: deadline}
				}
			}
		case 1: // Get
			e, err := dm.Get(ctx, "k")
			if vis {
				chk(err == nil, "visible-key-is-readable")
				if err == nil {
					chk(vpBytesEq(e.Value(), reg.val), "get-returns-current-value")
					chk(e.TTL() == reg.deadline, "get-reports-deadline")
				}
			} else {
				chk(errors.Is(err, ErrKeyNotFound), "invisible-key-is-not-found")
			}
		case 2: // Delete
			_, err := dm.Delete(ctx, "k")
			chk(err == nil, "delete-succeeds")
			*reg = vpReg{}
		case 3: // Expire
			d := vpRange("expire", 1, 60)
			err := dm.Expire(ctx, "k", time.Duration(d)*time.Millisecond)
			if vis {
				chk(err == nil, "expire-on-visible-key-succeeds")
				if err == nil {
					reg.deadline = now + int64(d)
				}
			} else {
				chk(errors.Is(err, ErrKeyNotFound), "expire-on-invisible-key-fails")
			}
		case 4: // GetPut
			v := vpVals[vpChoose("val", nvals)]
			old, err := dm.GetPut(ctx, "k", v)
			chk(err == nil, "getput-succeeds")
			if vis {
				chk(old != nil && vpBytesEq(old.Value(), reg.val), "getput-returns-visible-old-value")
			} else {
				chk(old == nil, "getput-returns-nothing-for-invisible-key")
			}
			if err == nil {
				*reg = vpReg{present: true, val: vpIntBytes(v), deadline: dflt(now)}
			}
		case 5: // Incr / Decr
			delta := 1 + vpChoose("delta", 2)*4
			base := 0
			if vis {
				n, perr := strconv.Atoi(string(reg.val))
				if perr == nil {
					base = n
				}
			}
			var got int
			var err error
			if vpChoose("decr", 2) == 0 {
				got, err = dm.Incr(ctx, "k", delta)
				base += delta
			} else {
				got, err = dm.Decr(ctx, "k", delta)
				base -= delta
			}
			chk(err == nil, "incr-succeeds")
			chk(got == base, "incr-starts-from-the-visible-value")
			if err == nil {
				keep := dflt(now)
				if vis && reg.deadline != 0 {
					keep = reg.deadline
				}
				*reg = vpReg{present: true, val: vpIntBytes(base), deadline: keep}
			}
		}
		if replicas == 2 && mirrorOnly {
			vpCheckMirror(cl, "d", "k")
		}
	}
	// final read-back through both members, after another solver-chosen wait
	vpSleepMs(vpRange("wait", 0, 70))
	now := vpNowMs()
	reg.vpClear(now)
	for m := 0; m < 2; m++ {
		e, err := vpDMap(cl.members[m], "d").Get(ctx, "k")
		if reg.visible(now) {
			chk(err == nil && vpBytesEq(e.Value(), reg.val), "final-read-visible")
			if err == nil {
				chk(e.TTL() == reg.deadline, "final-deadline")
			}
		} else {
			chk(errors.Is(err, ErrKeyNotFound), "final-read-invisible")
		}
	}
	vpReach("end")
}

func VerifC09_Expiry() { vpExpiryScript(false) }

// VerifC04_MirrorKV: the same scripts with ReplicaCount 2; after every acknowledged step the backup copy equals the
// primary copy in value, expiry and write timestamp, and is absent exactly when the primary copy is absent.
func VerifC04_MirrorKV() { vpExpiryScript(true) }

// vpCheckMirror: the backup copy on member 1 is identical to the primary copy on member 0 (value, expiry,
// timestamp) and absent exactly when the primary copy is absent.
func vpCheckMirror(cl *vpClusterT, name, key string) {
	p, pok := vpCopy(cl.members[0], name, key, partitions.PRIMARY)
	b, bok := vpCopy(cl.members[1], name, key, partitions.BACKUP)
	vpAssert(pok == bok, "backup-present-iff-primary-present")
	if pok && bok {
		vpAssert(vpBytesEq(p.Value(), b.Value()), "backup-value-mirrors-primary")
		vpAssert(p.TTL() == b.TTL(), "backup-expiry-mirrors-primary")
		vpAssert(p.Timestamp() == b.Timestamp(), "backup-timestamp-mirrors-primary")
	}
}

// VerifC09_TwoKeys: the expiry of a key is that key's own. Two keys, any script over Put with PX (solver-chosen
// 500..1000 ms), Incr, GetPut and plain Put on either key through either member, no waiting: after every step each
// key's stored expiry equals its own reference deadline - set by its own Put PX, kept by its own Incr, cleared by its
// own GetPut / plain Put, and never touched by an operation on the other key.
func VerifC09_TwoKeys() {
	steps := vpBound("steps")
	cl := vpTwoMembers(1+vpChoose("replicas", 2), 0)
	ctx := context.Background()
	keys := [2]string{"k1", "k2"}
	var ref [2]vpReg
	for i := 0; i < steps; i++ {
		k := vpChoose("key", 2)
		dm := vpDMap(cl.members[vpChoose("entry", 2)], "d")
		now := vpNowMs()
		switch vpChoose("op", 4) {
		case 0:
			d := vpRange("px", 500, 1000)
			err := dm.Put(ctx, keys[k], vpIntBytes(1), &PutConfig{HasPX: true, PX: time.Duration(d) * time.Millisecond})
			vpAssert(err == nil, "put-px-succeeds")
			ref[k] = vpReg{present: true, deadline: now + int64(d)}
		case 1:
			_, err := dm.Incr(ctx, keys[k], 1)
			vpAssert(err == nil, "incr-succeeds")
			if !ref[k].present {
				ref[k] = vpReg{present: true}
			}
		case 2:
			_, err := dm.GetPut(ctx, keys[k], vpIntBytes(5))
			vpAssert(err == nil, "getput-succeeds")
			ref[k] = vpReg{present: true}
		case 3:
			vpAssert(dm.Put(ctx, keys[k], vpIntBytes(7), nil) == nil, "put-succeeds")
			ref[k] = vpReg{present: true}
		}
		for j := 0; j < 2; j++ {
			e, err := vpDMap(cl.members[0], "d").Get(ctx, keys[j])
			if !ref[j].present {
				vpAssert(errors.Is(err, ErrKeyNotFound), "untouched-key-absent")
				continue
			}
			vpAssert(err == nil, "key-visible-before-its-deadline")
			if err != nil {
				continue
			}
			if ref[j].deadline == 0 {
				vpAssert(e.TTL() == 0, "key-without-expiry-has-none")
			} else {
				vpAssert(e.TTL() >= ref[j].deadline-vpMarginMs && e.TTL() <= ref[j].deadline+100, "key-keeps-its-own-deadline")
			}
		}
	}
	vpReach("end")
}
