//go:build verif

package dmap

import (
	"context"
	"errors"
	"strconv"

	"github.com/olric-data/olric/internal/cluster/partitions"
)

// vpKeyForPartition searches a key name that the (deterministic) hash maps to the given partition.
func vpKeyForPartition(name string, part uint64, count uint64, skip int) string {
	for i := 0; i < 200; i++ {
		k := "k" + strconv.Itoa(i)
		if partitions.HKey(name, k)%count == part {
			if skip == 0 {
				return k
			}
			skip--
		}
	}
	panic("no key found for partition")
}

// VerifC15_MultiDelete: a Delete naming several keys that live on different members (any subset of three owners,
// issued through any member, for every iteration order of the per-owner grouping) removes every named key wherever
// it lives, leaves the others alone, and returns the number of keys named - the same on every path.
func VerifC15_MultiDelete() {
	const parts = 3
	cl := vpNewCluster(vpClusterConfig{members: 3, replicaCount: 1, writeQuorum: 1, readQuorum: 1, partitions: parts})
	for p := 0; p < parts; p++ {
		cl.vpSetOwners(uint64(p), []int{p}, nil)
	}
	ctx := context.Background()
	var keys [4]string
	for p := 0; p < parts; p++ {
		keys[p] = vpKeyForPartition("d", uint64(p), parts, 0)
	}
	keys[3] = vpKeyForPartition("d", 1, parts, 1) // a second key on member 1
	// a key may also never have been stored: naming it is not an error and does not disturb its neighbours in the call
	stored := [4]bool{}
	for i, k := range keys {
		stored[i] = vpBool("stored")
		if !stored[i] {
			continue
		}
		owner := int(partitions.HKey("d", k) % parts)
		err := vpDMap(cl.members[owner], "d").Put(ctx, k, []byte{byte('A' + i)}, nil)
		vpAssume(err == nil)
	}
	var named []string
	inSet := [4]bool{}
	backwards := vpBool("backwards") // the order in which the caller lists the keys
	for j := range keys {
		i := j
		if backwards {
			i = len(keys) - 1 - j
		}
		if vpBool("named") {
			named = append(named, keys[i])
			inSet[i] = true
		}
	}
	vpAssume(len(named) > 0)
	entry := vpChoose("entry", 3)
	vpMapOrder("rotate")
	n, err := vpDMap(cl.members[entry], "d").Delete(ctx, named...)
	vpMapOrder("")
	vpAssert(err == nil, "multi-delete-succeeds")
	vpAssert(n == len(named), "multi-delete-returns-number-of-keys")
	for i, k := range keys {
		for m := 0; m < 3; m++ {
			_, gerr := vpDMap(cl.members[m], "d").Get(ctx, k)
			if inSet[i] || !stored[i] {
				vpAssert(errors.Is(gerr, ErrKeyNotFound), "named-key-is-deleted-wherever-it-lives")
			} else {
				vpAssert(gerr == nil, "other-key-untouched")
			}
		}
	}
	vpReach("end")
}
