//go:build verif

package dmap

import (
	"context"

	"github.com/olric-data/olric/internal/cluster/partitions"
)

// VerifC20_DMapCompaction: overwrite / delete churn on one key of a replicated DMap whose storage tables hold a
// single entry (so that every overwrite seals a table full of garbage, on the primary and - through replication - on
// the backup); then the periodic compaction pass runs on every member. Afterwards, on primaries and on backups, no
// fragment is left with 40% or more of its allocated bytes as garbage, and the live data is intact.
func VerifC20_DMapCompaction() {
	rounds := vpBound("rounds")
	size := vpU64("tableSize")
	vpAssume(size >= 34 && size <= 70) // one or two 32-byte entries per table
	cl := vpTwoMembers(2, size)
	ctx := context.Background()
	dm := vpDMap(cl.members[vpChoose("entry", 2)], "d")
	present := false
	var last byte
	for i := 0; i < rounds; i++ {
		if vpChoose("churn", 3) == 2 {
			_, err := dm.Delete(ctx, "k")
			vpAssert(err == nil, "delete-succeeds")
			present = false
		} else {
			last = byte('a' + i)
			vpAssert(dm.Put(ctx, "k", []byte{last}, nil) == nil, "put-succeeds")
			present = true
		}
	}
	for _, m := range cl.members {
		m.svc.doCompaction(0)
	}
	check := func(m *vpMember, kind partitions.Kind, label string) {
		d, err := m.svc.getDMap("d")
		if err != nil {
			return
		}
		part := d.getPartitionByHKey(partitions.HKey("d", "k"), kind)
		f, err := d.loadFragment(part)
		if err != nil {
			return
		}
		st := f.Stats()
		vpAssert(st.Garbage*10 < st.Allocated*4 || st.Garbage == 0, label)
	}
	check(cl.members[0], partitions.PRIMARY, "primary-fragment-compacted")
	check(cl.members[1], partitions.BACKUP, "backup-fragment-compacted")
	e, err := dm.Get(ctx, "k")
	if present {
		vpAssert(err == nil && len(e.Value()) == 1 && e.Value()[0] == last, "live-data-intact-after-compaction")
	} else {
		vpAssert(err != nil, "deleted-key-stays-deleted")
	}
	vpCheckMirror(cl, "d", "k")
	vpReach("end")
}

// VerifC20_ClosedFragment: the compaction pass holds a fragment it took from the partition map while a Destroy (or the
// janitor, after a hand-over) closes that fragment - the state right after the other thread has closed it is built
// directly: the fragment of a DMap with garbage in its tables is closed the way destroyLocalDMap does, then the
// compaction step that was about to run on it runs. It must come back (a worker that never returns keeps its
// semaphore slot and the periodic compaction of the whole member waits for it for ever).
func VerifC20_ClosedFragment() {
	cl := vpTwoMembers(1, 40)
	ctx := context.Background()
	dm := vpDMap(cl.members[0], "d")
	vpAssume(dm.Put(ctx, "k", []byte{1}, nil) == nil)
	vpAssume(dm.Put(ctx, "k", []byte{2}, nil) == nil)
	part := dm.getPartitionByHKey(partitions.HKey("d", "k"), partitions.PRIMARY)
	f, err := dm.loadFragment(part)
	vpAssume(err == nil)
	if vpChoose("closed", 2) == 1 {
		vpAssume(f.Close() == nil)
	}
	cl.members[0].svc.callCompactionOnFragment(f)
	vpReach("end")
}
