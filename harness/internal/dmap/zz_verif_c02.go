//go:build verif

package dmap

import (
	"context"
	"errors"
)

// VerifC02_Failover: three members, ReplicaCount 2, routing computed by the real routing-table code over a
// consistent-hash ring (six layouts: partitions spread evenly, or skewed so
// that the loss moves a partition between two survivors). A key receives an acknowledged Put and optionally an acknowledged second
// operation (overwrite or Delete); then any one member stops (the primary owner, the backup owner or the bystander;
// possibly the coordinator), the survivors learn it from their member lists and the coordinator recomputes and
// pushes the routing table; optionally one more acknowledged operation is issued through a survivor. Every survivor
// must then read exactly the last acknowledged value, or not-found after an acknowledged Delete.
func VerifC02_Failover() {
	const parts = 3
	cl := vpNewCluster(vpClusterConfig{members: 3, replicaCount: 2, writeQuorum: 1, readQuorum: 1, partitions: parts})
	ring := vpChoose("ring", 6) // three even layouts, three skewed ones (survivor-to-survivor moves)
	cl.vpAttachRouting(ring)
	key := "k" // partition 1
	if ring >= 3 {
		key = "c" // partition 2: the one a skewed layout moves between survivors
	}
	cl.vpCoordinator().svc.rt.VerifUpdateRouting() // bootstrap: the coordinator computes and pushes the first table
	ctx := context.Background()
	reg := &vpReg{}
	do := func(tag byte, allowNone bool, members []int) {
		kinds := 2
		if allowNone {
			kinds = 3
		}
		op := vpChoose("op", kinds)
		if op == 2 {
			return
		}
		dm := vpDMap(cl.members[members[vpChoose("entry", len(members))]], "d")
		if op == 0 {
			err := dm.Put(ctx, key, []byte{tag}, nil)
			vpAssert(err == nil, "put-acknowledged")
			if err == nil {
				*reg = vpReg{present: true, val: []byte{tag}}
			}
		} else {
			_, err := dm.Delete(ctx, key)
			vpAssert(err == nil, "delete-acknowledged")
			if err == nil {
				*reg = vpReg{}
			}
		}
	}
	all := []int{0, 1, 2}
	vpAssume(vpDMap(cl.members[vpChoose("entry", 3)], "d").Put(ctx, key, []byte{'1'}, nil) == nil)
	*reg = vpReg{present: true, val: []byte{'1'}}
	do('2', true, all)
	f := vpChoose("fails", 3)
	cl.vpFail(f)
	var survivors []int
	for i := 0; i < 3; i++ {
		if i != f {
			survivors = append(survivors, i)
		}
	}
	do('3', true, survivors)
	for _, i := range survivors {
		e, err := vpDMap(cl.members[i], "d").Get(ctx, key)
		if reg.present {
			vpAssert(err == nil && vpBytesEq(e.Value(), reg.val), "acknowledged-write-survives-member-loss")
		} else {
			vpAssert(errors.Is(err, ErrKeyNotFound), "acknowledged-delete-survives-member-loss")
		}
	}
	vpReach("end")
}
