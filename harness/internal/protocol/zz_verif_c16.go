//go:build verif

package protocol

import (
	"github.com/tidwall/redcon"
)

type vpParser struct {
	name string
	f    func(redcon.Command) error
}

func vpParsers() []vpParser {
	return []vpParser{
		{"Put", func(c redcon.Command) error { _, e := ParsePutCommand(c); return e }},
		{"PutEntry", func(c redcon.Command) error { _, e := ParsePutEntryCommand(c); return e }},
		{"Get", func(c redcon.Command) error { _, e := ParseGetCommand(c); return e }},
		{"GetEntry", func(c redcon.Command) error { _, e := ParseGetEntryCommand(c); return e }},
		{"Del", func(c redcon.Command) error { _, e := ParseDelCommand(c); return e }},
		{"DelEntry", func(c redcon.Command) error { _, e := ParseDelEntryCommand(c); return e }},
		{"PExpire", func(c redcon.Command) error { _, e := ParsePExpireCommand(c); return e }},
		{"Expire", func(c redcon.Command) error { _, e := ParseExpireCommand(c); return e }},
		{"Destroy", func(c redcon.Command) error { _, e := ParseDestroyCommand(c); return e }},
		{"Scan", func(c redcon.Command) error { _, e := ParseScanCommand(c); return e }},
		{"Incr", func(c redcon.Command) error { _, e := ParseIncrCommand(c); return e }},
		{"Decr", func(c redcon.Command) error { _, e := ParseDecrCommand(c); return e }},
		{"GetPut", func(c redcon.Command) error { _, e := ParseGetPutCommand(c); return e }},
		{"IncrByFloat", func(c redcon.Command) error { _, e := ParseIncrByFloatCommand(c); return e }},
		{"Lock", func(c redcon.Command) error { _, e := ParseLockCommand(c); return e }},
		{"Unlock", func(c redcon.Command) error { _, e := ParseUnlockCommand(c); return e }},
		{"LockLease", func(c redcon.Command) error { _, e := ParseLockLeaseCommand(c); return e }},
		{"PLockLease", func(c redcon.Command) error { _, e := ParsePLockLeaseCommand(c); return e }},
		{"Publish", func(c redcon.Command) error { _, e := ParsePublishCommand(c); return e }},
		{"PublishInternal", func(c redcon.Command) error { _, e := ParsePublishInternalCommand(c); return e }},
		{"Subscribe", func(c redcon.Command) error { _, e := ParseSubscribeCommand(c); return e }},
		{"PSubscribe", func(c redcon.Command) error { _, e := ParsePSubscribeCommand(c); return e }},
		{"PubSubChannels", func(c redcon.Command) error { _, e := ParsePubSubChannelsCommand(c); return e }},
		{"PubSubNumpat", func(c redcon.Command) error { _, e := ParsePubSubNumpatCommand(c); return e }},
		{"PubSubNumsub", func(c redcon.Command) error { _, e := ParsePubSubNumsubCommand(c); return e }},
		{"Ping", func(c redcon.Command) error { _, e := ParsePingCommand(c); return e }},
		{"MoveFragment", func(c redcon.Command) error { _, e := ParseMoveFragmentCommand(c); return e }},
		{"UpdateRouting", func(c redcon.Command) error { _, e := ParseUpdateRoutingCommand(c); return e }},
		{"LengthOfPart", func(c redcon.Command) error { _, e := ParseLengthOfPartCommand(c); return e }},
		{"Stats", func(c redcon.Command) error { _, e := ParseStatsCommand(c); return e }},
		{"ClusterRoutingTable", func(c redcon.Command) error { _, e := ParseClusterRoutingTable(c); return e }},
		{"ClusterMembers", func(c redcon.Command) error { _, e := ParseClusterMembers(c); return e }},
	}
}

var vpArgNames = [8]string{"arg0", "arg1", "arg2", "arg3", "arg4", "arg5", "arg6", "arg7"}

// VerifC16_Parsers: every command parser returns (a command or an error) for every argument vector of 1..maxargs
// arguments: no panic, no endless loop. Arguments 1..3 (the positional ones of most commands) are arbitrary byte
// strings of one shared length in {0,1,2}; arguments 4.. are arbitrary byte strings of 0..maxlen bytes whose
// length and bytes are decided lazily, so that option keywords in either case, numbers, junk and missing option
// values are all reachable.
func VerifC16_Parsers() {
	maxArgs := vpBound("maxargs")
	maxLen := vpBound("maxlen")
	ps := vpParsers()
	p := ps[vpChoose("parser", len(ps))]
	n := 1 + vpChoose("nargs", maxArgs)
	posLen := vpChoose("poslen", 3)
	args := make([][]byte, n)
	args[0] = []byte("CMD")
	for i := 1; i < n; i++ {
		if i <= 3 {
			args[i] = vpBytes(vpArgNames[i], posLen)
		} else {
			args[i] = vpLazyBytes(vpArgNames[i], maxLen)
		}
	}
	err := p.f(redcon.Command{Args: args})
	_ = err
	vpReach("end")
}
