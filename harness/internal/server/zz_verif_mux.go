//go:build verif

package server

import (
	"github.com/olric-data/olric/internal/protocol"
	"github.com/tidwall/redcon"
)

type vpMuxConn struct {
	redcon.Conn
	replies int
}

func (c *vpMuxConn) WriteError(msg string)  { c.replies++ }
func (c *vpMuxConn) WriteString(str string) { c.replies++ }

var vpMuxArgNames = [5]string{"m0", "m1", "m2", "m3", "m4"}

// VerifC05_Gate: the request dispatcher with a member-count precondition installed. For every command name
// (registered, unknown, PUBSUB with or without sub-command, the internal routing update) and argument vector: the
// member answers exactly once, never panics, and a handler runs only if the precondition held - except for the routing
// update, which must always get through (it is what restores the member).
func VerifC05_Gate() {
	maxLen := vpBound("maxlen")
	mux := NewServeMux()
	operable := vpBool("operable") // does this member currently see MemberCountQuorum members?
	handled := 0
	w := &ServeMuxWrapper{mux: mux, precond: func(conn redcon.Conn, cmd redcon.Command) bool {
		if !operable {
			conn.WriteError("CLUSTERQUORUM cannot be reached cluster quorum to operate")
			return false
		}
		return true
	}}
	h := func(conn redcon.Conn, cmd redcon.Command) {
		handled++
		conn.WriteString("OK")
	}
	routing := 0
	w.HandleFunc(protocol.DMap.Put, h)
	w.HandleFunc(protocol.DMap.Get, h)
	w.HandleFunc(protocol.PubSub.PubSubChannels, h)
	w.HandleFunc(protocol.PubSub.PubSubNumpat, h)
	w.HandleFunc(protocol.Internal.UpdateRouting, func(conn redcon.Conn, cmd redcon.Command) {
		routing++
		conn.WriteString("OK")
	})
	n := 1 + vpChoose("nargs", 3)
	args := make([][]byte, n)
	switch vpChoose("name", 7) {
	case 0:
		args[0] = []byte("dm.put")
	case 1:
		args[0] = []byte("DM.GET")
	case 2:
		args[0] = []byte("pubsub")
	case 3:
		args[0] = []byte("PUBSUB")
	case 4:
		args[0] = []byte(protocol.Internal.UpdateRouting)
	default:
		args[0] = vpLazyBytes("m0", maxLen)
		vpAssume(len(args[0]) > 0) // redcon never delivers an empty command name
	}
	for i := 1; i < n; i++ {
		if i == 1 && vpBool("subcommand") {
			args[i] = []byte("channels")
		} else {
			args[i] = vpLazyBytes(vpMuxArgNames[i], maxLen)
		}
	}
	conn := &vpMuxConn{}
	mux.ServeRESP(conn, redcon.Command{Args: args})
	vpAssert(conn.replies == 1, "exactly-one-reply")
	if !operable {
		vpAssert(handled == 0, "below-quorum-member-applies-nothing")
	}
	vpReach("end")
}

// VerifServe dispatches one command exactly as the connection loop does (Server.mux.ServeRESP).
func (s *Server) VerifServe(conn redcon.Conn, cmd redcon.Command) { s.mux.ServeRESP(conn, cmd) }
