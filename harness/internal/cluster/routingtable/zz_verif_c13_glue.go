//go:build verif

package routingtable

import (
	"github.com/hashicorp/memberlist"
	"github.com/olric-data/olric/config"
	"github.com/olric-data/olric/internal/discovery"
	"github.com/olric-data/olric/pkg/flog"
	"github.com/tidwall/redcon"
)

type discoveryMember = discovery.Member

func discoveryVerifNode(m discovery.Member) *memberlist.Node { return discovery.VerifNode(m) }
func discoveryVerifNew(this discovery.Member, ml *memberlist.Memberlist, c *config.Config, l *flog.Logger) *discovery.Discovery {
	return discovery.VerifNew(this, ml, c, l)
}
func redconCommand(args [][]byte) redcon.Command { return redcon.Command{Args: args} }

func vpRtConfig(parts uint64, replicas int, ring vpRing) *config.Config {
	return &config.Config{PartitionCount: parts, ReplicaCount: replicas, MemberCountQuorum: 1, Hasher: ring, LoadFactor: 4}
}

type discoveryClusterEvent = discovery.ClusterEvent

func discoveryVerifSet(d *discovery.Discovery, nodes []*memberlist.Node) {
	d.VerifMemberlist().VerifSet(nodes)
}
