//go:build verif

package routingtable

import (
	"github.com/olric-data/olric/config"
	"github.com/olric-data/olric/internal/cluster/partitions"
	"github.com/olric-data/olric/internal/discovery"
	"github.com/tidwall/redcon"
)

// VerifNew builds a RoutingTable value directly (no discovery, no server): enough for the services that only
// ask it who this member is, how many partitions it owns, and whether the member-count quorum holds.
func VerifNew(this discovery.Member, c *config.Config, primary, backup *partitions.Partitions, numMembers int32, owned uint64) *RoutingTable {
	return &RoutingTable{
		this:                this,
		config:              c,
		primary:             primary,
		backup:              backup,
		numMembers:          numMembers,
		bootstrapped:        1,
		ownedPartitionCount: owned,
		members:             newMembers(),
		table:               make(map[uint64]*route),
	}
}

func (r *RoutingTable) VerifSetOwned(n uint64) { r.ownedPartitionCount = n }

// VerifAddMember registers a member in the routing table's member list (as a join event would).
func (r *RoutingTable) VerifAddMember(m discovery.Member) {
	r.members.Lock()
	r.members.Add(m)
	r.members.Unlock()
}

// recording connection for handler harnesses
type vpRtConn struct {
	redcon.Conn
	replies int
}

func (c *vpRtConn) WriteError(msg string) { c.replies++ }
func (c *vpRtConn) WriteInt(num int)      { c.replies++ }
func (c *vpRtConn) WriteString(s string)  { c.replies++ }

// VerifC16_LengthOfPart: the internal partition-length query answers (a number or an error) for every argument
// vector, including partition ids far outside the table and the RC flag, without dereferencing a missing partition.
func VerifC16_LengthOfPart() {
	maxLen := vpBound("maxlen")
	primary := partitions.New(3, partitions.PRIMARY)
	backup := partitions.New(3, partitions.BACKUP)
	r := VerifNew(discovery.Member{Name: "m0:1", ID: 1}, &config.Config{PartitionCount: 3}, primary, backup, 1, 0)
	r.joined = make(chan struct{})
	close(r.joined)
	n := 1 + vpChoose("nargs", 4)
	args := make([][]byte, n)
	args[0] = []byte("internal.node.lengthofpart")
	names := [5]string{"a0", "a1", "a2", "a3", "a4"}
	for i := 1; i < n; i++ {
		args[i] = vpLazyBytes(names[i], maxLen)
	}
	conn := &vpRtConn{}
	r.lengthOfPartCommandHandler(conn, redcon.Command{Args: args})
	vpAssert(conn.replies == 1, "handler-replies-once")
	vpReach("end")
}
