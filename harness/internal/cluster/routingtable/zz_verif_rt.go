//go:build verif

package routingtable

import (
	"context"

	"github.com/buraksezer/consistent"
	"github.com/hashicorp/memberlist"
	"github.com/olric-data/olric/config"
	"github.com/olric-data/olric/internal/cluster/partitions"
	"github.com/olric-data/olric/internal/discovery"
	"github.com/olric-data/olric/internal/protocol"
	"github.com/olric-data/olric/internal/server"
	"github.com/olric-data/olric/pkg/flog"
	"github.com/tidwall/redcon"
)

// VerifNew builds a RoutingTable value directly (no discovery, no server): enough for the services that only
// ask it who this member is, how many partitions it owns, and whether the member-count quorum holds.
func VerifNew(this discovery.Member, c *config.Config, primary, backup *partitions.Partitions, numMembers int32, owned uint64) *RoutingTable {
	return &RoutingTable{
		this:                this,
		config:              c,
		primary:             primary,
		backup:              backup,
		numMembers:          numMembers,
		bootstrapped:        1,
		ownedPartitionCount: owned,
		members:             newMembers(),
		table:               make(map[uint64]*route),
	}
}

func (r *RoutingTable) VerifSetOwned(n uint64) { r.ownedPartitionCount = n }

// VerifSetNumMembers sets the member count this member currently sees; VerifMarkBootstrapped marks it bootstrapped.
func (r *RoutingTable) VerifSetNumMembers(n int32)      { r.numMembers = n }
func (r *RoutingTable) VerifMarkBootstrapped()          { r.markBootstrapped() }
func (r *RoutingTable) VerifSetThis(m discovery.Member) { r.this = m }

// VerifAddMember registers a member in the routing table's member list (as a join event would).
func (r *RoutingTable) VerifAddMember(m discovery.Member) {
	r.members.Lock()
	r.members.Add(m)
	r.members.Unlock()
}

// recording connection for handler harnesses
type vpRtConn struct {
	redcon.Conn
	replies int
}

func (c *vpRtConn) WriteError(msg string) { c.replies++ }
func (c *vpRtConn) WriteInt(num int)      { c.replies++ }
func (c *vpRtConn) WriteString(s string)  { c.replies++ }

// VerifC16_LengthOfPart: the internal partition-length query answers (a number or an error) for every argument
// vector, including partition ids far outside the table and the RC flag, without dereferencing a missing partition.
func VerifC16_LengthOfPart() {
	maxLen := vpBound("maxlen")
	primary := partitions.New(3, partitions.PRIMARY)
	backup := partitions.New(3, partitions.BACKUP)
	r := VerifNew(discovery.Member{Name: "m0:1", ID: 1}, &config.Config{PartitionCount: 3}, primary, backup, 1, 0)
	r.joined = make(chan struct{})
	close(r.joined)
	n := 1 + vpChoose("nargs", 4)
	args := make([][]byte, n)
	args[0] = []byte("internal.node.lengthofpart")
	names := [5]string{"a0", "a1", "a2", "a3", "a4"}
	for i := 1; i < n; i++ {
		args[i] = vpLazyBytes(names[i], maxLen)
	}
	conn := &vpRtConn{}
	r.lengthOfPartCommandHandler(conn, redcon.Command{Args: args})
	vpAssert(conn.replies == 1, "handler-replies-once")
	vpReach("end")
}

// ---- helpers for harnesses of other packages (dmap) that want real routing-table behaviour on a loopback cluster

// VerifRingHasher is a table-driven hash for the consistent-hashing ring (positions chosen by the harness).
type VerifRingHasher struct{ Pos map[string]uint64 }

func (h VerifRingHasher) Sum64(b []byte) uint64 { return h.Pos[string(b)] }

// VerifAttach gives the routing table a membership view, a ring and an RPC client (the caller's loopback client).
func (r *RoutingTable) VerifAttach(live []discovery.Member, ring VerifRingHasher, client *server.Client, lg *flog.Logger) {
	var nodes []*memberlist.Node
	var cms []consistent.Member
	for _, m := range live {
		nodes = append(nodes, discovery.VerifNode(m))
		cms = append(cms, m)
		r.members.Add(m)
	}
	r.config.Hasher = ring
	r.log = lg
	r.discovery = discovery.VerifNew(r.this, memberlist.VerifNew(nodes), r.config, lg)
	r.consistent = consistent.New(cms, consistent.Config{Hasher: ring, PartitionCount: int(r.config.PartitionCount), ReplicationFactor: 2, Load: 1.25}) // the default load factor
	r.client = client
	r.ctx = context.Background()
	r.joined = make(chan struct{})
	close(r.joined)
	r.numMembers = int32(len(live))
}

// VerifMemberLeft applies what the member-list reports when a member is gone: the real cluster-event handler runs.
func (r *RoutingTable) VerifMemberLeft(gone discovery.Member, stillLive []discovery.Member) {
	var nodes []*memberlist.Node
	for _, m := range stillLive {
		nodes = append(nodes, discovery.VerifNode(m))
	}
	r.discovery.VerifMemberlist().VerifSet(nodes)
	meta, _ := gone.Encode()
	r.processClusterEvent(&discovery.ClusterEvent{Event: memberlist.NodeLeave, NodeName: gone.Name, NodeMeta: meta})
	r.numMembers = int32(len(stillLive))
}

func (r *RoutingTable) VerifUpdateRouting() { r.updateRouting() }

// VerifHandle dispatches the routing table's internal commands.
func (r *RoutingTable) VerifHandle(name string, conn redcon.Conn, cmd redcon.Command) bool {
	switch name {
	case protocol.Internal.LengthOfPart:
		r.lengthOfPartCommandHandler(conn, cmd)
	case protocol.Internal.UpdateRouting:
		r.updateRoutingCommandHandler(conn, cmd)
	default:
		return false
	}
	return true
}
