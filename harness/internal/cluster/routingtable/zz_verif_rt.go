//go:build verif

package routingtable

import (
	"github.com/olric-data/olric/config"
	"github.com/olric-data/olric/internal/cluster/partitions"
	"github.com/olric-data/olric/internal/discovery"
)

// VerifNew builds a RoutingTable value directly (no discovery, no server): enough for the services that only
// ask it who this member is, how many partitions it owns, and whether the member-count quorum holds.
func VerifNew(this discovery.Member, c *config.Config, primary, backup *partitions.Partitions, numMembers int32, owned uint64) *RoutingTable {
	return &RoutingTable{
		this:                this,
		config:              c,
		primary:             primary,
		backup:              backup,
		numMembers:          numMembers,
		bootstrapped:        1,
		ownedPartitionCount: owned,
		members:             newMembers(),
		table:               make(map[uint64]*route),
	}
}

func (r *RoutingTable) VerifSetOwned(n uint64) { r.ownedPartitionCount = n }

// VerifAddMember registers a member in the routing table's member list (as a join event would).
func (r *RoutingTable) VerifAddMember(m discovery.Member) {
	r.members.Lock()
	r.members.Add(m)
	r.members.Unlock()
}
