//go:build verif

package routingtable

import (
	"context"
	"errors"
	"io"
	"log"
	"strconv"

	"github.com/buraksezer/consistent"
	"github.com/hashicorp/memberlist"
	"github.com/olric-data/olric/internal/cluster/partitions"
	"github.com/olric-data/olric/internal/protocol"
	"github.com/olric-data/olric/internal/server"
	"github.com/olric-data/olric/pkg/flog"
	"github.com/olric-data/olric/pkg/storage"
	"github.com/redis/go-redis/v9"
)

// vpRing is the hash function handed to the consistent-hashing library: positions of member names, of their
// virtual nodes and of partition keys are taken from a table, so the harness (the solver) chooses the ring.
type vpRing struct{ pos map[string]uint64 }

func (h vpRing) Sum64(b []byte) uint64 { return h.pos[string(b)] }

// vpFrag is a fragment stub that only reports how many keys it holds.
type vpFrag struct{ length int } // length may be a solver variable: it is only looked at when somebody asks

func (f *vpFrag) Name() string         { return "stub" }
func (f *vpFrag) Stats() storage.Stats { return storage.Stats{Length: f.length} }
func (f *vpFrag) Move(*partitions.Partition, string, []discoveryMember) error {
	return nil
}
func (f *vpFrag) Compaction() (bool, error) { return true, nil }
func (f *vpFrag) Destroy() error            { return nil }
func (f *vpFrag) Close() error              { return nil }

type vpRtMember struct {
	idx    int
	member discoveryMember
	rt     *RoutingTable
	live   bool
	reach  bool // answers RPCs
}

type vpRtCluster struct {
	ms    []*vpRtMember
	parts uint64
}

var vpRtCl *vpRtCluster

type vpRtHook struct{ addr string }

func (h vpRtHook) DialHook(next redis.DialHook) redis.DialHook { return next }
func (h vpRtHook) ProcessHook(next redis.ProcessHook) redis.ProcessHook {
	return func(ctx context.Context, cmd redis.Cmder) error { return vpProcess(h.addr, ctx, cmd) }
}
func (h vpRtHook) ProcessPipelineHook(next redis.ProcessPipelineHook) redis.ProcessPipelineHook {
	return next
}

type vpRtReply struct {
	err  string
	n    int
	bulk []byte
	kind int // 1 err, 2 int, 3 bulk
}

type vpRtRConn struct {
	vpRtConn
	rep vpRtReply
}

func (c *vpRtRConn) WriteError(msg string) { c.rep = vpRtReply{kind: 1, err: msg} }
func (c *vpRtRConn) WriteInt(num int)      { c.rep = vpRtReply{kind: 2, n: num} }
func (c *vpRtRConn) WriteBulk(b []byte)    { c.rep = vpRtReply{kind: 3, bulk: b} }

// vpProcess delivers the routing-table RPCs (partition length query, routing-table push) to the target member.
func vpProcess(addr string, ctx context.Context, cmd redis.Cmder) error {
	var m *vpRtMember
	for _, x := range vpRtCl.ms {
		if x.member.Name == addr {
			m = x
		}
	}
	if m == nil || !m.live || !m.reach {
		return errors.New("dial tcp: connect: connection refused")
	}
	args := cmd.Args()
	wire := make([][]byte, len(args))
	for i, a := range args {
		switch v := a.(type) {
		case string:
			wire[i] = []byte(v)
		case []byte:
			wire[i] = v
		case uint64:
			wire[i] = strconv.AppendUint(nil, v, 10)
		case int:
			wire[i] = strconv.AppendInt(nil, int64(v), 10)
		default:
			panic("vpProcess: unsupported argument type")
		}
	}
	conn := &vpRtRConn{}
	switch cmd.Name() {
	case protocol.Internal.LengthOfPart:
		if vpRtFailLen != nil && vpRtFailLen[m.idx] {
			return errors.New("read tcp: i/o timeout")
		}
		m.rt.lengthOfPartCommandHandler(conn, redconCommand(wire))
	case protocol.Internal.UpdateRouting:
		m.rt.updateRoutingCommandHandler(conn, redconCommand(wire))
	default:
		return errors.New("ERR unknown command")
	}
	switch conn.rep.kind {
	case 1:
		return errors.New(conn.rep.err)
	case 2:
		cmd.(*redis.IntCmd).SetVal(int64(conn.rep.n))
	case 3:
		cmd.(*redis.StringCmd).SetVal(string(conn.rep.bulk))
	default:
		return errors.New("ERR no reply")
	}
	return nil
}

// vpNewRtCluster builds one RoutingTable per member; all live members share the same membership view and ring.
func vpNewRtCluster(n int, parts uint64, replicas int, live []bool, ids []uint64, births []int64, ring vpRing) *vpRtCluster {
	cl := &vpRtCluster{parts: parts}
	lg := flog.New(log.New(io.Discard, "", 0))
	var nodes []*memberlist.Node
	var liveMembers []consistent.Member
	for i := 0; i < n; i++ {
		m := discoveryMember{Name: "n" + strconv.Itoa(i) + ":1", NameHash: uint64(50 + i), ID: ids[i], Birthdate: births[i]}
		cl.ms = append(cl.ms, &vpRtMember{idx: i, member: m, live: live[i], reach: true})
		if live[i] {
			nodes = append(nodes, discoveryVerifNode(m))
			liveMembers = append(liveMembers, m)
		}
	}
	for _, x := range cl.ms {
		if !x.live {
			continue
		}
		c := vpRtConfig(parts, replicas, ring)
		primary := partitions.New(parts, partitions.PRIMARY)
		backup := partitions.New(parts, partitions.BACKUP)
		r := VerifNew(x.member, c, primary, backup, int32(len(nodes)), 0)
		r.log = lg
		r.discovery = discoveryVerifNew(x.member, memberlist.VerifNew(nodes), c, lg)
		r.consistent = consistent.New(liveMembers, consistent.Config{Hasher: ring, PartitionCount: int(parts), ReplicationFactor: 2, Load: 4})
		r.client = server.NewClient(nil)
		r.ctx = context.Background()
		r.joined = make(chan struct{})
		close(r.joined)
		for _, y := range cl.ms {
			if y.live {
				r.members.Add(y.member)
			}
			r.client.Get(y.member.Name).AddHook(vpRtHook{addr: y.member.Name})
		}
		x.rt = r
	}
	vpRtCl = cl
	return cl
}

func vpSameIDs(a, b []discoveryMember) bool {
	if len(a) != len(b) {
		return false
	}
	for i := range a {
		if a[i].ID != b[i].ID {
			return false
		}
	}
	return true
}

// VerifC13_RoutingStep: from an arbitrary previous routing state (owner lists that may name departed members and
// earlier incarnations of re-joined members), an arbitrary set of live members, an arbitrary consistent-hash ring
// (positions chosen by the solver), arbitrary left-over data and failing partition-length queries, the coordinator
// recomputes and pushes the routing table (twice, as it does periodically). Afterwards every live member holds the
// same table, in which each partition has exactly one live primary owner (the ring owner, listed last), its current
// backups are min(ReplicaCount, members)-1 distinct live members other than the primary, every further listed owner
// is a live member that holds data (or could not be asked), no departed member or stale incarnation is listed, the
// coordinator is the oldest live member and each member's owned-partition count matches the table.
func VerifC13_RoutingStep() { vpRoutingStep(0) }

// VerifC13_ThreeReplicas: the same step with ReplicaCount 3 and all three members live (so that two backup owners
// are due), no re-join: previous owner lists, left-over data, failing length queries and ring rotation as above.
func VerifC13_ThreeReplicas() { vpRoutingStep(3) }

func vpRoutingStep(fixedReplicas int) {
	const n = 3
	const parts = uint64(3) // the ring library needs at least as many partitions as members; partition 0 is observed
	replicas := 2
	if fixedReplicas != 0 {
		replicas = fixedReplicas
	} else if vpBound("allreplicas") != 0 {
		replicas = 1 + vpChoose("replicas", 3)
	}
	maxPrev := vpBound("maxprev")
	var live [n]bool
	ids := make([]uint64, n)
	prevIDs := make([]uint64, n)
	births := make([]int64, n)
	nLive := 0
	for i := 0; i < n; i++ {
		live[i] = vpBool("live")
		ids[i] = uint64(100 + i)
		prevIDs[i] = ids[i]
		births[i] = int64(1 + i)
		if live[i] {
			nLive++
		}
	}
	vpAssume(nLive >= 1)
	if fixedReplicas != 0 {
		vpAssume(nLive == n)
	}
	// at most one member has re-joined under its old address: the previous table knows its old incarnation
	if rj := vpChoose("rejoined", n+1); rj < n {
		vpAssume(fixedReplicas == 0)
		vpAssume(live[rj])
		prevIDs[rj] = uint64(200 + rj)
		births[rj] = int64(10 + rj)
	}
	// the ring: one of three rotations of the members around the partition keys
	rot := vpChoose("ring", vpBound("rings"))
	ring := vpRing{pos: map[string]uint64{}}
	slot := 0
	for i := 0; i < n; i++ {
		if live[(i+rot)%n] {
			name := "n" + strconv.Itoa((i+rot)%n) + ":1"
			ring.pos[name+"0"] = uint64(slot*10 + 5) // two virtual nodes per member
			ring.pos[name+"1"] = uint64(slot*10 + 7)
			ring.pos[name] = uint64(slot*10 + 6)
			slot++
		}
	}
	for p := 0; p < int(parts); p++ {
		ring.pos[string([]byte{byte(p), 0, 0, 0, 0, 0, 0, 0})] = uint64((p%slot)*10 + 1)
	}
	// a re-joined member is first known under its old incarnation; the member list then reports the update and the
	// real cluster-event handler runs on every live member
	startIDs := append([]uint64{}, ids...)
	startBirths := append([]int64{}, births...)
	rejoinedIdx := -1
	for i := 0; i < n; i++ {
		if prevIDs[i] != ids[i] {
			rejoinedIdx = i
			startIDs[i] = prevIDs[i]
			startBirths[i] = int64(1 + i)
		}
	}
	cl := vpNewRtCluster(n, parts, replicas, live[:], startIDs, startBirths, ring)
	if rejoinedIdx >= 0 {
		nm := cl.ms[rejoinedIdx].member
		nm.ID, nm.Birthdate = ids[rejoinedIdx], births[rejoinedIdx]
		cl.ms[rejoinedIdx].member = nm
		var nodes []*memberlist.Node
		for i := 0; i < n; i++ {
			if live[i] {
				nodes = append(nodes, discoveryVerifNode(cl.ms[i].member))
			}
		}
		meta, _ := nm.Encode()
		for i := 0; i < n; i++ {
			if !live[i] {
				continue
			}
			r := cl.ms[i].rt
			if i == rejoinedIdx {
				r.this = nm
				r.discovery = discoveryVerifNew(nm, memberlist.VerifNew(nodes), r.config, r.log)
			} else {
				discoveryVerifSet(r.discovery, nodes)
			}
			r.processClusterEvent(&discoveryClusterEvent{Event: memberlist.NodeUpdate, NodeName: nm.Name, NodeMeta: meta})
			r.client.Get(nm.Name).AddHook(vpRtHook{addr: nm.Name}) // the event handler closed the old connection pool
		}
	}
	// previous state
	prevMember := func(i int) discoveryMember {
		m := cl.ms[i].member
		m.ID = prevIDs[i]
		return m
	}
	pickList := func(what string) []discoveryMember {
		var l []discoveryMember
		k := vpChoose(what+"len", maxPrev+1)
		taken := [n]bool{}
		for j := 0; j < k; j++ {
			i := vpChoose(what, n)
			vpAssume(!taken[i])
			taken[i] = true
			l = append(l, prevMember(i))
		}
		return l
	}
	prevPrimary := pickList("prevprimary")
	prevBackup := pickList("prevbackup")
	hasP := [n]bool{}
	hasB := [n]bool{}
	failLen := [n]bool{}
	for i := 0; i < n; i++ {
		if !live[i] {
			continue
		}
		r := cl.ms[i].rt
		r.primary.PartitionByID(0).SetOwners(prevPrimary)
		r.backup.PartitionByID(0).SetOwners(prevBackup)
		lp, lb := vpRange("primarykeys", 0, 1), vpRange("backupkeys", 0, 1)
		hasP[i], hasB[i] = lp > 0, lb > 0
		r.primary.PartitionByID(0).Map().Store("dmap.x", &vpFrag{length: lp})
		r.backup.PartitionByID(0).Map().Store("dmap.x", &vpFrag{length: lb})
	}
	coord := -1
	for i := 0; i < n; i++ {
		if live[i] && (coord < 0 || births[i] < births[coord]) {
			coord = i
		}
	}
	for i := 0; i < n; i++ {
		if live[i] && i != coord {
			failLen[i] = vpBool("lengthqueryfails")
		}
	}
	vpRtFailLen = failLen[:]
	if len(prevPrimary) == 0 {
		// an empty previous table is only valid together with an empty backup list (first bootstrap)
		vpAssume(len(prevBackup) == 0)
	}
	cr := cl.ms[coord].rt
	cr.updateRouting()
	cr.updateRouting()
	vpRtFailLen = nil

	isLiveCurrent := func(m discoveryMember) bool {
		for i := 0; i < n; i++ {
			if live[i] && ids[i] == m.ID && cl.ms[i].member.Name == m.Name {
				return true
			}
		}
		return false
	}
	idxOf := func(m discoveryMember) int {
		for i := 0; i < n; i++ {
			if ids[i] == m.ID {
				return i
			}
		}
		return -1
	}
	ringOwner := cr.consistent.GetPartitionOwner(0).(discoveryMember)
	owners := cr.primary.PartitionByID(0).Owners()
	vpAssert(len(owners) >= 1, "partition-has-a-primary-owner")
	if len(owners) >= 1 {
		last := owners[len(owners)-1]
		vpAssert(last.ID == ringOwner.ID, "primary-owner-is-the-ring-owner")
		for a := range owners {
			vpAssert(isLiveCurrent(owners[a]), "no-departed-member-among-primary-owners")
			for b := a + 1; b < len(owners); b++ {
				vpAssert(owners[a].ID != owners[b].ID, "primary-owners-distinct")
			}
			if a < len(owners)-1 {
				if i := idxOf(owners[a]); i >= 0 {
					vpAssert(hasP[i] || failLen[i], "previous-owner-still-holds-data")
				}
			}
		}
		if replicas > 1 {
			backups := cr.backup.PartitionByID(0).Owners()
			want := replicas
			if nLive < want {
				want = nLive
			}
			want--
			vpAssert(len(backups) >= want, "enough-backup-owners")
			for a := range backups {
				vpAssert(isLiveCurrent(backups[a]), "no-departed-member-among-backup-owners")
				for b := a + 1; b < len(backups); b++ {
					vpAssert(backups[a].ID != backups[b].ID, "backup-owners-distinct")
				}
				if a >= len(backups)-want {
					vpAssert(backups[a].ID != last.ID, "current-backup-is-not-the-primary")
				} else if i := idxOf(backups[a]); i >= 0 {
					vpAssert(hasB[i] || failLen[i], "extra-backup-owner-still-holds-data")
				}
			}
		}
	}
	// agreement, coordinator, owned partition count
	for i := 0; i < n; i++ {
		if !live[i] {
			continue
		}
		r := cl.ms[i].rt
		vpAssert(vpSameIDs(r.primary.PartitionByID(0).Owners(), owners), "members-agree-on-primary-owners")
		if replicas > 1 {
			vpAssert(vpSameIDs(r.backup.PartitionByID(0).Owners(), cr.backup.PartitionByID(0).Owners()), "members-agree-on-backup-owners")
		}
		vpAssert(r.discovery.GetCoordinator().ID == ids[coord], "coordinator-is-the-oldest-live-member")
		wantOwned := uint64(0)
		for p := uint64(0); p < parts; p++ {
			if ow := r.primary.PartitionByID(p).Owners(); len(ow) >= 1 && ow[len(ow)-1].ID == ids[i] {
				wantOwned++
			}
		}
		vpAssert(r.OwnedPartitionCount() == wantOwned, "owned-partition-count-matches-table")
	}
	vpReach("end")
}

// vpRtFailLen: members whose partition-length query fails (transiently) while the harness runs the update.
var vpRtFailLen []bool
