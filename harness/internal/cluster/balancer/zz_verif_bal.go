//go:build verif

package balancer

import (
	"context"

	"github.com/olric-data/olric/config"
	"github.com/olric-data/olric/internal/cluster/partitions"
	"github.com/olric-data/olric/internal/cluster/routingtable"
	"github.com/olric-data/olric/pkg/flog"
)

// VerifNew builds a balancer over a member's partitions and routing table (what New takes from the environment).
func VerifNew(c *config.Config, primary, backup *partitions.Partitions, rt *routingtable.RoutingTable, lg *flog.Logger) *Balancer {
	ctx, cancel := context.WithCancel(context.Background())
	return &Balancer{config: c, primary: primary, backup: backup, rt: rt, log: lg, ctx: ctx, cancel: cancel}
}

// VerifPrimaryCopies / VerifBackupCopies run one pass of the real hand-over loops.
func (b *Balancer) VerifPrimaryCopies() { b.primaryCopies() }
func (b *Balancer) VerifBackupCopies()  { b.backupCopies() }
