//go:build verif

package olric

import (
	"context"
	"errors"
	"time"

	"github.com/olric-data/olric/internal/dmap"
)

var vpLockDeadlines = [3]time.Duration{900 * time.Millisecond, 250 * time.Millisecond, 1500 * time.Millisecond}

// VerifC08_ClusterLock: the waiting Lock of the cluster client (DM.LOCK over the wire, deadline sent as seconds with a
// fraction). The key is held by an embedded client, with a solver-chosen timeout of 10..60 ms or none; the cluster
// client then calls Lock with a deadline of 900 ms, 250 ms or 1.5 s. If the holder's lock times out it acquires the
// lock (never before that timeout); if it never does, the call fails with lock-not-acquired and not before its whole
// deadline has passed.
func VerifC08_ClusterLock() {
	const members, parts = 2, 2
	cl := dmap.VerifNewCluster(members, parts)
	cc := vpNewClusterClient(cl, members, parts)
	ctx := context.Background()
	part := uint64(vpChoose("partition", parts))
	key := cl.KeyForPartition("l", part, 0)
	cdm, err := cc.NewDMap("l")
	vpAssume(err == nil)
	cd := cdm.(*ClusterDMap)
	timed := vpBool("timed")
	var timeout time.Duration
	if timed {
		timeout = time.Duration(vpRange("timeout", 10, 60)) * time.Millisecond
	}
	t0 := vpNowMs()
	_, herr := cl.DMap(int(part)%members, "l").Lock(ctx, key, timeout, 0)
	vpAssume(herr == nil)
	deadline := vpLockDeadlines[vpChoose("deadline", len(vpLockDeadlines))]
	before := vpNowMs()
	lc, lerr := cd.Lock(ctx, key, deadline)
	after := vpNowMs()
	if timed {
		vpAssert(lerr == nil && lc != nil, "waiting-cluster-client-lock-is-acquired-after-the-holders-timeout")
		vpAssert(after >= t0+timeout.Milliseconds(), "lock-acquired-only-after-holder-timeout")
	} else {
		vpAssert(errors.Is(lerr, ErrLockNotAcquired), "held-lock-is-not-acquired")
		vpAssert(after-before >= deadline.Milliseconds(), "lock-not-acquired-no-earlier-than-deadline")
	}
	vpReach("end")
}
