//go:build verif

package olric

import (
	"context"
	"strings"

	"github.com/olric-data/olric/internal/dmap"
)

// VerifC13_ClientRouting: "every key maps to the same partition and owner from any member or client". The cluster
// client holds the members' routing table (owners lists as the coordinator pushed them: previous owners that still
// hold data first, the current owner last; replica owners) and must send a key's command to the member that the
// members themselves regard as the partition's owner - directly and through a pipeline - whether or not a previous
// owner is still listed.
func VerifC13_ClientRouting() {
	const parts = 2
	prev := vpChoose("prevowner", 2) == 1
	replicas := 1 + vpChoose("replicas", 2)
	cl := dmap.VerifNewClusterR(parts, replicas, prev)
	cc := vpNewClusterClient(cl, 2, parts)
	rt := make(RoutingTable)
	for p := uint64(0); p < parts; p++ {
		rt[p] = Route{PrimaryOwners: cl.PrimaryOwners(p), ReplicaOwners: cl.BackupOwners(p)}
	}
	cc.routingTable.Store(rt)
	p := uint64(vpChoose("partition", parts))
	key := cl.KeyForPartition("d", p, vpChoose("skip", 2))
	owner := cl.OwnerOfPartition(p) // what every member answers
	rc, err := cc.smartPick("d", key)
	vpAssert(err == nil, "client-finds-an-owner")
	vpAssert(rc == cc.client.Get(owner), "cluster-client-maps-the-key-to-the-members-owner")
	cdm, err := cc.NewDMap("d")
	vpAssume(err == nil)
	cd := cdm.(*ClusterDMap)
	ctx := context.Background()
	before := len(cl.Delivered())
	if vpChoose("pipeline", 2) == 1 {
		pipe, perr := cd.Pipeline()
		vpAssume(perr == nil)
		_, qerr := pipe.Put(ctx, key, 1)
		vpAssume(qerr == nil)
		vpAssert(pipe.Exec(ctx) == nil, "pipeline-exec-succeeds")
	} else {
		vpAssert(cd.Put(ctx, key, 1) == nil, "put-succeeds")
	}
	log := cl.Delivered()
	vpAssert(len(log) > before && strings.HasPrefix(log[before], owner+":"), "first-hop-of-the-command-is-the-owner")
	// and it is readable from both members
	for m := 0; m < 2; m++ {
		_, gerr := cl.DMap(m, "d").Get(ctx, key)
		vpAssert(gerr == nil, "key-readable-from-every-member")
	}
	vpReach("end")
}
