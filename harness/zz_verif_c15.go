//go:build verif

package olric

import (
	"context"
	"errors"
	"io"
	"log"
	"time"

	"github.com/olric-data/olric/internal/dmap"
	"github.com/olric-data/olric/internal/server"
	"github.com/redis/go-redis/v9"
)

// The cluster client and the pipeline are driven against the dmap package's loopback cluster: every command they
// send is delivered to the addressed member's real handler.

var vpCl *dmap.VerifCluster

type vpHook struct{ addr string }

func (h vpHook) DialHook(next redis.DialHook) redis.DialHook { return next }
func (h vpHook) ProcessHook(next redis.ProcessHook) redis.ProcessHook {
	return func(ctx context.Context, cmd redis.Cmder) error { return vpProcess(h.addr, ctx, cmd) }
}
func (h vpHook) ProcessPipelineHook(next redis.ProcessPipelineHook) redis.ProcessPipelineHook {
	return func(ctx context.Context, cmds []redis.Cmder) error {
		var first error
		for _, c := range cmds {
			err := vpProcess(h.addr, ctx, c)
			c.SetErr(err)
			if err != nil && first == nil {
				first = err
			}
		}
		return first
	}
}

func vpProcess(addr string, ctx context.Context, cmd redis.Cmder) error {
	return vpCl.Process(addr, ctx, cmd)
}

// vpNewClusterClient builds a ClusterClient by hand (no sockets): routing table = the loopback cluster's.
func vpNewClusterClient(cl *dmap.VerifCluster, members int, parts uint64) *ClusterClient {
	vpCl = cl
	ctx, cancel := context.WithCancel(context.Background())
	c := &ClusterClient{
		client:         server.NewClient(nil),
		config:         &clusterClientConfig{},
		logger:         log.New(io.Discard, "", 0),
		partitionCount: parts,
		ctx:            ctx,
		cancel:         cancel,
	}
	rt := make(RoutingTable)
	for p := uint64(0); p < parts; p++ {
		rt[p] = Route{PrimaryOwners: []string{cl.OwnerOfPartition(p)}}
	}
	c.routingTable.Store(rt)
	for i := 0; i < members; i++ {
		c.client.Get(cl.Addr(i)).AddHook(vpHook{addr: cl.Addr(i)})
	}
	return c
}

var vpDurations = [3]time.Duration{1500 * time.Millisecond, 2 * time.Second, 900 * time.Millisecond}

// VerifC15_ClusterClient: the same operation with the same options issued through (a) an embedded client on the owner,
// (b) the cluster client, (c) a pipeline of the cluster client - on three keys of the same partition - must return the
// same result and leave the same stored entry (value, expiry, presence). Options: every NX/XX x EX/PX/EXAT/PXAT/none
// combination for Put; Expire; GetPut; Incr/Decr; Delete.
func VerifC15_ClusterClient() {
	const members, parts = 2, 2
	cl := dmap.VerifNewCluster(members, parts)
	cc := vpNewClusterClient(cl, members, parts)
	ctx := context.Background()
	part := uint64(vpChoose("partition", parts))
	owner := int(part) % members
	keys := [3]string{cl.KeyForPartition("d", part, 0), cl.KeyForPartition("d", part, 1), cl.KeyForPartition("d", part, 2)}
	emb := cl.DMap(owner, "d")
	cdm, err := cc.NewDMap("d")
	vpAssume(err == nil)
	cd := cdm.(*ClusterDMap)
	// optional common pre-state: the key exists (with a far expiry or none)
	pre := vpChoose("pre", 3)
	for _, k := range keys {
		switch pre {
		case 1:
			vpAssume(emb.Put(ctx, k, 5, nil) == nil)
		case 2:
			vpAssume(emb.Put(ctx, k, 5, &dmap.PutConfig{HasPX: true, PX: time.Hour}) == nil)
		}
	}
	now := time.Now()
	var errs [3]error
	var rets [3]int
	switch vpChoose("op", 5) {
	case 0: // Put with options
		cond := vpChoose("cond", 3)
		exp := vpChoose("exp", 5)
		d := vpDurations[vpChoose("dur", len(vpDurations))]
		at := time.Duration(now.Add(d).UnixMilli()) * time.Millisecond
		pc := &dmap.PutConfig{HasNX: cond == 1, HasXX: cond == 2}
		var opts []PutOption
		if cond == 1 {
			opts = append(opts, NX())
		}
		if cond == 2 {
			opts = append(opts, XX())
		}
		switch exp {
		case 1:
			pc.HasEX, pc.EX = true, d
			opts = append(opts, EX(d))
		case 2:
			d = time.Duration(vpRange("pxms", 1, 3600000)) * time.Millisecond // solver-chosen milliseconds
			pc.HasPX, pc.PX = true, d
			opts = append(opts, PX(d))
		case 3:
			pc.HasEXAT, pc.EXAT = true, at
			opts = append(opts, EXAT(at))
		case 4:
			pc.HasPXAT, pc.PXAT = true, at
			opts = append(opts, PXAT(at))
		}
		errs[0] = emb.Put(ctx, keys[0], 9, pc)
		errs[1] = cd.Put(ctx, keys[1], 9, opts...)
		pipe, perr := cd.Pipeline()
		vpAssume(perr == nil)
		fp, ferr := pipe.Put(ctx, keys[2], 9, opts...)
		vpAssume(ferr == nil)
		vpAssume(pipe.Exec(ctx) == nil)
		errs[2] = fp.Result()
	case 1: // Expire
		d := vpDurations[vpChoose("dur", len(vpDurations))]
		errs[0] = emb.Expire(ctx, keys[0], d)
		errs[1] = cd.Expire(ctx, keys[1], d)
		pipe, perr := cd.Pipeline()
		vpAssume(perr == nil)
		fe, ferr := pipe.Expire(ctx, keys[2], d)
		vpAssume(ferr == nil)
		vpAssume(pipe.Exec(ctx) == nil)
		errs[2] = fe.Result()
	case 2: // Incr / Decr
		delta := 1 + vpChoose("delta", 2)*6
		if vpChoose("decr", 2) == 0 {
			rets[0], errs[0] = emb.Incr(ctx, keys[0], delta)
			rets[1], errs[1] = cd.Incr(ctx, keys[1], delta)
			pipe, perr := cd.Pipeline()
			vpAssume(perr == nil)
			fi, ferr := pipe.Incr(ctx, keys[2], delta)
			vpAssume(ferr == nil)
			vpAssume(pipe.Exec(ctx) == nil)
			rets[2], errs[2] = fi.Result()
		} else {
			rets[0], errs[0] = emb.Decr(ctx, keys[0], delta)
			rets[1], errs[1] = cd.Decr(ctx, keys[1], delta)
			pipe, perr := cd.Pipeline()
			vpAssume(perr == nil)
			fi, ferr := pipe.Decr(ctx, keys[2], delta)
			vpAssume(ferr == nil)
			vpAssume(pipe.Exec(ctx) == nil)
			rets[2], errs[2] = fi.Result()
		}
	case 3: // GetPut
		old0, e0 := emb.GetPut(ctx, keys[0], 11)
		errs[0] = e0
		if old0 != nil {
			rets[0] = len(old0.Value())
		}
		old1, e1 := cd.GetPut(ctx, keys[1], 11)
		errs[1] = e1
		if old1 != nil {
			b, _ := old1.Byte()
			rets[1] = len(b)
		}
		pipe, perr := cd.Pipeline()
		vpAssume(perr == nil)
		fg, ferr := pipe.GetPut(ctx, keys[2], 11)
		vpAssume(ferr == nil)
		vpAssume(pipe.Exec(ctx) == nil)
		old2, e2 := fg.Result()
		errs[2] = e2
		if old2 != nil {
			b, _ := old2.Byte()
			rets[2] = len(b)
		}
	case 4: // Delete
		rets[0], errs[0] = emb.Delete(ctx, keys[0])
		rets[1], errs[1] = cd.Delete(ctx, keys[1])
		pipe, perr := cd.Pipeline()
		vpAssume(perr == nil)
		fd := pipe.Delete(ctx, keys[2])
		vpAssume(pipe.Exec(ctx) == nil)
		rets[2], errs[2] = fd.Result()
	}
	kind := func(e error) int {
		switch {
		case e == nil:
			return 0
		case errors.Is(e, ErrKeyFound) || errors.Is(e, dmap.ErrKeyFound):
			return 1
		case errors.Is(e, ErrKeyNotFound) || errors.Is(e, dmap.ErrKeyNotFound):
			return 2
		}
		return 9
	}
	vpAssert(kind(errs[0]) == kind(errs[1]), "cluster-client-result-equals-embedded-result")
	vpAssert(kind(errs[0]) == kind(errs[2]), "pipeline-result-equals-embedded-result")
	vpAssert(rets[0] == rets[1], "cluster-client-return-value-equals-embedded")
	vpAssert(rets[0] == rets[2], "pipeline-return-value-equals-embedded")
	v0, t0, ok0 := cl.Stored("d", keys[0])
	v1, t1, ok1 := cl.Stored("d", keys[1])
	v2, t2, ok2 := cl.Stored("d", keys[2])
	vpAssert(ok0 == ok1 && ok0 == ok2, "same-presence-through-every-path")
	if ok0 && ok1 && ok2 {
		vpAssert(vpBytesEq(v0, v1) && vpBytesEq(v0, v2), "same-value-through-every-path")
		vpAssert(t0 == t1 && t0 == t2, "same-expiry-through-every-path")
	}
	vpReach("end")
}

var vpBatchVals = [3]string{"first-value", "second", "3rd"}

// VerifC15_PipelineBatch: a pipeline that queues two or three value-carrying commands (Put or GetPut, each of
// solver-chosen kind, on keys of solver-chosen partitions, with different values), optionally with an ordinary
// cluster-client Put issued between queueing and Exec, has the same effect as the same operations issued one by one:
// after Exec every key holds exactly the value that was queued for it and every GetPut future returns the previous
// value of its own key. (Buffers taken from sync.Pool are reused most-recent-first in the engine.)
func VerifC15_PipelineBatch() {
	const members, parts = 2, 2
	cl := dmap.VerifNewCluster(members, parts)
	cc := vpNewClusterClient(cl, members, parts)
	ctx := context.Background()
	cdm, err := cc.NewDMap("d")
	vpAssume(err == nil)
	cd := cdm.(*ClusterDMap)
	n := 2 + vpChoose("n", 2)
	var keys [3]string
	for i := 0; i < n; i++ {
		keys[i] = cl.KeyForPartition("d", uint64(vpChoose("partition", parts)), i)
		vpAssume(cl.DMap(0, "d").Put(ctx, keys[i], "old-"+vpBatchVals[i], nil) == nil)
	}
	pipe, perr := cd.Pipeline()
	vpAssume(perr == nil)
	var puts [3]*FuturePut
	var getputs [3]*FutureGetPut
	for i := 0; i < n; i++ {
		if vpChoose("kind", 2) == 0 {
			f, ferr := pipe.Put(ctx, keys[i], vpBatchVals[i])
			vpAssume(ferr == nil)
			puts[i] = f
		} else {
			f, ferr := pipe.GetPut(ctx, keys[i], vpBatchVals[i])
			vpAssume(ferr == nil)
			getputs[i] = f
		}
	}
	if vpChoose("interleaved", 2) == 1 {
		vpAssume(cd.Put(ctx, cl.KeyForPartition("d", 0, 5), "an unrelated and rather longer value") == nil)
	}
	vpAssert(pipe.Exec(ctx) == nil, "exec-succeeds")
	for i := 0; i < n; i++ {
		if puts[i] != nil {
			vpAssert(puts[i].Result() == nil, "pipelined-put-succeeds")
		} else {
			old, gerr := getputs[i].Result()
			vpAssert(gerr == nil && old != nil, "pipelined-getput-succeeds")
			if gerr == nil && old != nil {
				s, _ := old.String()
				vpAssert(s == "old-"+vpBatchVals[i], "pipelined-getput-returns-its-keys-previous-value")
			}
		}
		v, _, ok := cl.Stored("d", keys[i])
		vpAssert(ok && string(v) == vpBatchVals[i], "pipelined-write-stores-its-own-value")
	}
	vpReach("end")
}
