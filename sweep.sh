#!/bin/sh
# ./sweep.sh [tier] [shard n]: run every seeded change and every fix revert against the check expected to catch it; prints
# one line each. With "shard n" only every n-th entry (offset shard) is run, on scratch worktrees (mutcheck2.sh), so that
# several shards can run side by side.
tier="${1:-quick}"; shard="${2:-0}"; nshards="${3:-1}"
cd /verif
i=0
while read patch prop only; do
  [ -z "$patch" ] && continue
  case "$patch" in \#*) continue;; esac
  i=$((i+1)); [ $((i % nshards)) -ne "$shard" ] && continue
  if [ -n "$only" ]; then out=$(./mutcheck2.sh /verif/seeded/$patch $prop $tier -only $only 2>&1); else out=$(./mutcheck2.sh /verif/seeded/$patch $prop $tier 2>&1); fi
  rc=$(echo "$out" | grep -o "exit=[0-9]*")
  first=$(echo "$out" | grep -m1 -E "^(VIOLATION|OK|INCONCLUSIVE|UNCONFIRMED)" | cut -c1-150)
  echo "$patch $prop $only $rc :: $first"
done <<LIST
C01-a/patch.diff C01 Concurrent
C01-a/patch.diff C08 Concurrent
C02-a/patch.diff C02 Failover
C02-b/patch.diff C02 Failover
C03-a/patch.diff C03 HandOver
C03-b/patch.diff C03 HandOver
C04-a/patch.diff C04 MirrorConcurrent
C04-a/patch.diff C07 Atomic
C05-a/patch.diff C05 Read
C05-b/patch.diff C05 MemberQuorum
C06-a/patch.diff C06 Read
C07-a/patch.diff C07 Atomic
C08-a/patch.diff C08 Concurrent
C09-a/patch.diff C09 Expiry
C09-b/patch.diff C09 Expiry
C10-a/patch.diff C10 MaxKeys
C10-b/patch.diff C10 MaxKeys
C11-a/patch.diff C11 Map
C12-a/patch.diff C12 Scan
C12-b/patch.diff C12 Scan
C13-a/patch.diff C13 RoutingStep
C13-b/patch.diff C13 RoutingStep
C14-a/patch.diff C14
C15-a/patch.diff C15 Expiry
C15-b/patch.diff C15 Expiry
C16-a/patch.diff C16 ScanHandler
C16-b/patch.diff C16 Parsers
C17-a/patch.diff C17
C17-b/patch.diff C17
C17-b/patch.diff C11 Transfer
C18-a/patch.diff C18
C19-a/patch.diff C19 Isolation
C19-b/patch.diff C19 DestroyReuse
C20-a/patch.diff C20 DMapCompaction
C20-b/patch.diff C20
reverts/R-eb97b81.diff C11 Map
reverts/R-d6a3439.diff C11 Map
reverts/R-a9ed52b.diff C20 Churn
reverts/R-51102eb.diff C20 Accounting
reverts/R-22548f8.diff C12 Scan
reverts/R-22a1e06.diff C12 Scan
reverts/R-06339eb.diff C18
reverts/R-3ddff53.diff C16 Parsers
reverts/R-57ef5cd.diff C16 Handlers
reverts/R-d9620f3.diff C09 Expiry
reverts/R-3b6b27c.diff C09 Expiry
reverts/R-73b73f8.diff C09 Expiry
reverts/R-2defd38.diff C05 WriteQuorum
reverts/R-c643cc6.diff C15 MultiDelete
reverts/R-5824b2e.diff C03 HandOver
reverts/R-f103e0f.diff C02 Failover
reverts/R-6cad632.diff C10 MaxKeys
reverts/R-2b6b82d.diff C14
reverts/R-5cb11b9.diff C14
reverts/R-7fe726b.diff C07 Atomic
reverts/R-559a2f6.diff C17 DMapLimits
C01-c/patch.diff C01 Register
C04-c/patch.diff C04 MirrorTables
C06-c/patch.diff C06 Read
C07-c/patch.diff C07 Mixed
C08-c/patch.diff C08 LockWait
C11-c/patch.diff C11 Layouts
C12-c/patch.diff C12 Scan
C14-c/patch.diff C14
C18-c/patch.diff C18 Recycle
C02-c/patch.diff C04 MirrorTables
C03-c/patch.diff C13 RoutingStep
C05-c/patch.diff C05 NewGate
C09-c/patch.diff C09 TwoKeys
C10-c/patch.diff C10 Idle
C13-c/patch.diff C13 ThreeReplicas
C15-c/patch.diff C15 PipelineBatch
C16-c/patch.diff C16 Handlers
C17-c/patch.diff C15 PipelineBatch
C19-c/patch.diff C19 DestroyLeftovers
C20-c/patch.diff C20 DMapCompaction
reverts/R-85a6273.diff C03 Balancer
reverts/R-21d79c4.diff C20 MixedSizes
reverts/R-c74f5cb.diff C20 ClosedFragment
reverts/R-5cee263.diff C05 NewGate
reverts/R-af02097.diff C09 StaleCopies
C01-d/patch.diff C11 LargeTable
C02-d/patch.diff C02 WriteQuorum
C03-d/patch.diff C03 BackupMove
C06-d/patch.diff C06 Read
C08-d/patch.diff C08 ClusterLock
C09-d/patch.diff C09 StaleCopies
C12-d/patch.diff C12 PausedScan
C14-d/patch.diff C14
C16-d/patch.diff C14
C20-d/patch.diff C20 MixedSizes
LIST
