#!/bin/sh
# ./confirm_all.sh [seed-id ...]: run confirm_seed.sh for the given seeds (default: every seed without meta.json)
cd /verif/seeded
seeds="$@"
[ -z "$seeds" ] && for d in C*; do [ -f $d/meta.json ] || seeds="$seeds $d"; done
for d in $seeds; do
  pk=$(grep -m1 "^package" $d/demo_test.go | awk '{print $2}')
  case $pk in
    dmap) dir=internal/dmap;; olric) dir=.;; kvstore) dir=internal/kvstore;; routingtable) dir=internal/cluster/routingtable;;
    pubsub) dir=internal/pubsub;; protocol) dir=internal/protocol;; table) dir=internal/kvstore/table;; *) echo "$d: unknown package $pk"; continue;;
  esac
  re=$(grep -o "^func Test[A-Za-z0-9_]*" $d/demo_test.go | sed 's/func //' | tr '\n' '|' | sed 's/|$//')
  echo "== $d ($dir, $re)"
  /verif/confirm_seed.sh /verif/seeded/$d $dir "^($re)\$" 2>&1 | head -12
done
